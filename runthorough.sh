#!/bin/bash
# Runs every thorough check once and prints one summary line per check (used with `vp run`).
cd "$(dirname "$0")"
for p in C14 C19 C10 C15 C03 C18 C13 C04 C06 C07 C16 C09 C08 C05 C20 C12 C11 C02 C17 C01; do
  s=$(date +%s)
  ./vcheck $p thorough > /tmp/thorough-$p.log 2>&1
  rc=$?
  echo "== $p exit=$rc wall=$(( $(date +%s) - s ))s :: $(grep -v '^KNOWN' /tmp/thorough-$p.log | head -3 | cut -c1-400)"
done
