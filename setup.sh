#!/bin/bash
# Build the framework from files on disk only (offline) and warm the Go build cache.
set -e
cd "$(dirname "$0")"
exec python3 ./vcheck --setup
