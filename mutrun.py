#!/usr/bin/env python3
"""mutrun — classical mutation operators against the checks (auxiliary measurement, DESIGN.md §5).

usage: mutrun.py [-j N] [--stride K] [--offset O]
Every K-th mutation site (engine/mutate) of the library files the properties are anchored in: scratch
worktree of /repo HEAD, mutation applied, build, the repository's own test suite; a mutant the suite
lets through is handed to the quick checks of the properties mapped to its file, in turn, until one
raises a VIOLATION.  Result: mutants/<file>-<n>.json and a summary table (stdout, mutants/SUMMARY.md).
A surviving mutant is either equivalent (no property is affected) or a gap in the checks; each one is
triaged by hand in mutants/TRIAGE.md.
"""
import sys, os, json, subprocess, shutil, time
from concurrent.futures import ThreadPoolExecutor

ENV = dict(os.environ, GOFLAGS="-mod=mod", GOPROXY="off", GOSUMDB="off", GOTOOLCHAIN="local")
VERIF = os.path.dirname(os.path.abspath(__file__))
CODEC = ["C17", "C02", "C18", "C03", "C11", "C01"]
SESS_ALL = ["C19", "C15", "C14", "C10", "C06", "C16", "C07", "C13", "C04", "C20", "C09", "C05", "C08"]
MAP = {
    "fix/message.go": CODEC + ["C05", "C04"], "fix/types.go": CODEC + ["C16", "C06"], "fix/group.go": CODEC, "fix/component.go": CODEC,
    "fix/key_value.go": CODEC, "fix/generator.go": CODEC, "fix/utils.go": ["C18", "C11", "C16", "C10", "C04", "C14"],
    "fix/encoding/unmarshaler.go": ["C02", "C18", "C03", "C11", "C16", "C06", "C14"],
    "conn.go": ["C04", "C18", "C13", "C16", "C20"], "handler.go": ["C19", "C04", "C13", "C14", "C05", "C15", "C20"],
    "handler_func_pool.go": ["C19", "C14", "C20", "C13"], "acceptor.go": ["C13", "C04", "C18", "C20"], "initiator.go": ["C13", "C04", "C18", "C20"],
    "session/session.go": SESS_ALL, "utils/timer.go": ["C15", "C09", "C08", "C20", "C14"], "utils/event_handler_pool.go": ["C15", "C19", "C13", "C09", "C20"],
    "storages/memory/storage.go": ["C19", "C10", "C07", "C05", "C20"], "generator/generator.go": ["C12"],
}


def sh(cmd, cwd=None, timeout=3600):
    p = subprocess.run(cmd, shell=True, cwd=cwd, env=ENV, stdout=subprocess.PIPE, stderr=subprocess.STDOUT, timeout=timeout)
    return p.returncode, p.stdout.decode("utf-8", "replace")


def one(job):
    f, n = job
    mid = "%s-%d" % (f.replace("/", "_").replace(".go", ""), n)
    outp = os.path.join(VERIF, "mutants", mid + ".json")
    if os.path.exists(outp):
        return json.load(open(outp))
    wt = "/tmp/mu-%s" % mid
    sh("git -C /repo worktree remove --force %s" % wt)
    shutil.rmtree(wt, ignore_errors=True)
    sh("git -C /repo worktree add --detach %s HEAD" % wt)
    res = dict(id=mid, file=f, n=n)
    try:
        rc, out = sh("%s/bin/mutate -apply %d %s" % (VERIF, n, os.path.join(wt, f)))
        res["mutation"] = out.strip()
        rc, out = sh("go build ./... && go vet ./%s 2>&1 | head -5" % (os.path.dirname(f) or "."), cwd=wt)
        if rc != 0:
            res["fate"] = "does-not-compile"
            return res
        rc, out = sh("go test -vet=off -count=1 ./...", cwd=wt, timeout=600)
        if rc != 0:
            rc, out = sh("go test -vet=off -count=1 ./...", cwd=wt, timeout=600)  # flaky socket tests: one retry
        if rc != 0:
            res["fate"] = "killed-by-suite"
            return res
        rc, out = sh("git diff", cwd=wt)
        res["diff"] = out[-1500:]
        res["fate"] = "survived"
        res["checks"] = {}
        for p in MAP[f]:
            t0 = time.time()
            rc, out = sh("%s/vcheck %s quick --repo %s" % (VERIF, p, wt), cwd=VERIF)
            verdict = "ok" if rc == 0 else ("ALARM" if rc == 1 else "BROKEN")
            sigs = [l.strip()[:200] for l in out.splitlines() if l.strip().startswith("sig=")]
            res["checks"][p] = dict(verdict=verdict, wall_s=round(time.time() - t0, 1), sig=sigs[:1], broken=[l[:300] for l in out.splitlines() if l.startswith("BROKEN")][:1])
            if verdict == "ALARM":
                res["fate"] = "killed-by-" + p
                break
        return res
    finally:
        json.dump(res, open(outp, "w"), indent=1)
        sh("git -C /repo worktree remove --force %s" % wt)
        shutil.rmtree(wt, ignore_errors=True)


def main():
    a = sys.argv[1:]
    j, stride, offset = 2, 13, 5
    if "-j" in a:
        i = a.index("-j"); j = int(a[i + 1]); del a[i:i + 2]
    if "--stride" in a:
        i = a.index("--stride"); stride = int(a[i + 1]); del a[i:i + 2]
    if "--offset" in a:
        i = a.index("--offset"); offset = int(a[i + 1]); del a[i:i + 2]
    os.makedirs(os.path.join(VERIF, "mutants"), exist_ok=True)
    jobs = []
    g = 0
    for f in MAP:
        rc, out = sh("%s/bin/mutate -list %s" % (VERIF, os.path.join("/repo", f)))
        for line in out.splitlines():
            if g % stride == offset % stride:
                jobs.append((f, int(line.split()[0])))
            g += 1
    print("%d mutation sites, %d sampled" % (g, len(jobs)), flush=True)
    results = []
    with ThreadPoolExecutor(max_workers=j) as ex:
        for r in ex.map(one, jobs):
            results.append(r)
            print(r["id"], r.get("fate"), "|", r.get("mutation"), flush=True)
    fates = {}
    for r in results:
        k = r["fate"] if not r["fate"].startswith("killed-by-C") else "killed-by-a-check"
        fates[k] = fates.get(k, 0) + 1
    print(fates)


if __name__ == "__main__":
    main()
