#!/usr/bin/env python3
"""seedregress — re-run the checks against every stored seeded change (detection only).

usage: seedregress.py [-j N] [--tier quick] [id-prefix ...]
For each /verif/seeded/<id>: scratch worktree of /repo HEAD (outside /repo and /verif, removed
afterwards), patch.diff applied, the tree must build, ./vcheck <property> <tier> --repo <worktree>
must report a violation.  meta.json's confirmed.detected_by is refreshed.  Prints one line per
seed and a summary; exit 1 if any stored seed is no longer detected.
"""
import sys, os, json, subprocess, shutil, time
from concurrent.futures import ThreadPoolExecutor

ENV = dict(os.environ, GOFLAGS="-mod=mod", GOPROXY="off", GOSUMDB="off", GOTOOLCHAIN="local")
VERIF = os.path.dirname(os.path.abspath(__file__))


def sh(cmd, cwd=None, timeout=3600):
    p = subprocess.run(cmd, shell=True, cwd=cwd, env=ENV, stdout=subprocess.PIPE, stderr=subprocess.STDOUT, text=True, timeout=timeout)
    return p.returncode, p.stdout


def one(sid, tier):
    d = os.path.join(VERIF, "seeded", sid)
    meta = json.load(open(os.path.join(d, "meta.json")))
    prop = meta["property"]
    wt = "/tmp/sr-%s" % sid
    sh("git -C /repo worktree remove --force %s" % wt)
    shutil.rmtree(wt, ignore_errors=True)
    rc, out = sh("git -C /repo worktree add --detach %s HEAD" % wt)
    if rc != 0:
        return sid, "ERROR worktree: " + out[-200:]
    try:
        rc, out = sh("git apply %s" % os.path.join(d, "patch.diff"), cwd=wt)
        if rc != 0:
            return sid, "PATCH-DOES-NOT-APPLY " + out[-200:]
        rc, out = sh("go build ./...", cwd=wt)
        if rc != 0:
            return sid, "DOES-NOT-BUILD " + out[-200:]
        t0 = time.time()
        rc, out = sh("%s/vcheck %s %s --repo %s" % (VERIF, prop, tier, wt), cwd=VERIF)
        viol = [l for l in out.splitlines() if l.startswith("VIOLATION")]
        sigs = [l.strip()[:300] for l in out.splitlines() if l.strip().startswith("sig=")]
        meta.setdefault("confirmed", {}).setdefault("detected_by", {})[prop] = dict(
            exit=rc, violation=bool(viol), sigs=sigs[:6], wall_s=round(time.time() - t0, 1),
            broken=[l for l in out.splitlines() if l.startswith("BROKEN")][:2])
        json.dump(meta, open(os.path.join(d, "meta.json"), "w"), indent=1)
        if viol:
            return sid, "DETECTED %.0fs %s" % (time.time() - t0, (sigs[0][:110] if sigs else ""))
        return sid, ("BROKEN " if rc == 2 else "MISSED ") + out[-300:].replace("\n", " | ")
    finally:
        sh("git -C /repo worktree remove --force %s" % wt)
        shutil.rmtree(wt, ignore_errors=True)


def main():
    a = sys.argv[1:]
    j, tier = 3, "quick"
    if "-j" in a:
        i = a.index("-j"); j = int(a[i + 1]); del a[i:i + 2]
    if "--tier" in a:
        i = a.index("--tier"); tier = a[i + 1]; del a[i:i + 2]
    ids = sorted(os.listdir(os.path.join(VERIF, "seeded")))
    if a:
        ids = [s for s in ids if any(s.startswith(p) for p in a)]
    bad = 0
    with ThreadPoolExecutor(max_workers=j) as ex:
        for sid, res in ex.map(lambda s: one(s, tier), ids):
            print(sid, res, flush=True)
            if not res.startswith("DETECTED"):
                bad += 1
    print("seeds=%d not-detected=%d" % (len(ids), bad))
    sys.exit(1 if bad else 0)


if __name__ == "__main__":
    main()
