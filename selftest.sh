#!/bin/bash
# Engine self-test: rewrites engine/selftest with the same rewriter as the library, explores each
# small program with the same explorer and compares with independently known answers.
# Writes evidence/_engine_selftest.json; exit 0 iff every comparison agrees.
set -e
cd "$(dirname "$0")"
export GOFLAGS=-mod=mod GOPROXY=off GOSUMDB=off GOTOOLCHAIN=local
python3 ./vcheck --tools >/dev/null
S=$(mktemp -d /var/tmp/vselftest.XXXXXX)
trap 'rm -rf "$S"' EXIT
bin/rewrite engine/selftest "$S/src" >/dev/null
printf '\nrequire vsched v0.0.0\nreplace vsched => %s\n' "$PWD/engine/vsched" >> "$S/src/go.mod"
python3 ./vcheck --build-fixups "$S/src" -o "$S/selftest" .
rc=0
GOMAXPROCS=1 "$S/selftest" > "$S/out.json" || rc=$?
if [ "$1" != "--no-evidence" ]; then cp "$S/out.json" evidence/_engine_selftest.json; fi
python3 - "$S/out.json" <<'PY'
import json,sys
d=json.load(open(sys.argv[1]))
ex=sum(sum(t["executions_by_bound"].values()) for t in d["tests"])
print("engine self-test: %d programs, %d executions, %d replays compared, failures=%d" % (len(d["tests"]), ex, sum(t["replays_compared"] for t in d["tests"]), len(d["failures"])))
for f in d["failures"]: print("  FAIL", f)
PY
exit $rc
