#!/usr/bin/env python3
"""Rewrites the 'quick' and 'thorough' size/time figures of the summary table in DESIGN.md from evidence/<id>.json
(quick tier, as last run) and a thorough-run log (lines '== Cxx exit=… :: Cxx thorough: evaluations=… wall=…')."""
import json, re, sys, os
V = os.path.dirname(os.path.abspath(__file__))
tlog = sys.argv[1] if len(sys.argv) > 1 else None
th = {}
if tlog and os.path.exists(tlog):
    for l in open(tlog, errors="replace"):
        m = re.match(r"== (C\d\d) exit=(\d+) wall=(\d+)s :: .*?evaluations=(\d+).*?exhaustive=(\w+)", l)
        if m:
            th[m.group(1)] = (int(m.group(4)), int(m.group(3)), m.group(5), m.group(2))
def sci(n):
    if n < 10000:
        return str(n)
    e = len(str(n)) - 1
    if round(n / 10 ** e, 1) >= 10:
        e += 1
    return "%.1f·10%s" % (n / 10 ** e, "".join("⁰¹²³⁴⁵⁶⁷⁸⁹"[int(c)] for c in str(e)))
def dur(s):
    return "%d s" % s if s < 120 else "%d min" % round(s / 60)
p = os.path.join(V, "DESIGN.md")
s = open(p).read()
out = []
for line in s.split("\n"):
    m = re.match(r"\| (C\d\d) \| (.*?) \| (.*?) \| (.*) \| (.*) \|$", line)
    if m and os.path.exists(os.path.join(V, "evidence", m.group(1) + ".json")):
        pid = m.group(1)
        e = json.load(open(os.path.join(V, "evidence", pid + ".json")))
        q = m.group(4)
        if e.get("tier") == "quick":
            q = re.sub(r"\(([^()]*)\)\s*$", "", q).rstrip() + " (%s, %s)" % (sci(e["coverage"]["evaluations"]), dur(e["wall_s"]))
        t = m.group(5)
        if pid in th:
            ev, w, ex, rc = th[pid]
            t = re.sub(r"\(([^()]*)\)\s*$", "", t).rstrip() + " (%s, %s%s)" % (sci(ev), dur(w), "" if ex == "True" else ", capped at the deadline")
        line = "| %s | %s | %s | %s | %s |" % (pid, m.group(2), m.group(3), q, t)
    out.append(line)
open(p, "w").write("\n".join(out))
print("summary table updated; thorough entries:", len(th))
