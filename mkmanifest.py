#!/usr/bin/env python3
"""Regenerates MANIFEST.json from checks.py (so the two never drift)."""
import json, os, sys
sys.path.insert(0, os.path.dirname(os.path.abspath(__file__)))
from checks import CHECKS, NOT_APPLICABLE, LEVEL_TEXT, TECHNIQUE, ENGINES

ALL = ["C%02d" % i for i in range(1, 21)]
m = {
    "version": 1,
    "setup_cmd": "./setup.sh",
    "hooks": {
        "guard": "verif",
        "enable": "no hooks live inside /repo: every check copies the current working tree into a scratch directory and instruments the copy there (source-to-source rewriting onto the controlled scheduler, plus files injected into the copy); the build tag 'verif' is reserved for hooks should one ever be needed",
        "baseline_off_cmd": "cd /repo && GOFLAGS=-mod=mod GOPROXY=off GOSUMDB=off GOTOOLCHAIN=local go test -vet=off -count=1 -timeout 25m ./...",
        "source_commits": [],
        "add_only": True,
    },
    "engines": ENGINES,
    "checks": [],
    "not_applicable": [],
    "notes": "Fix commits in /repo (unguarded, 'fix:' prefix) are listed in known_findings.txt as 'fixed:' entries; findings recorded but not repaired are 'known:' entries there. DESIGN.md §7 maps seeded changes to the checks that catch them.",
}
for pid in ALL:
    if pid in CHECKS:
        c = CHECKS[pid]
        m["checks"].append({
            "property_id": pid,
            "quick_cmd": "./vcheck %s quick" % pid,
            "thorough_cmd": "./vcheck %s thorough" % pid,
            "evidence_file": "evidence/%s.json" % pid,
            "replay_cmd_template": "./vcheck %s --replay {path}" % pid,
            "engine": c.get("engine") or "+".join(sorted(set(p["engine"] for p in c["phases"]))),
            "level_claimed": {"category": c["level"], "text": LEVEL_TEXT[pid], "design_ref": c.get("design_ref", "DESIGN.md §3 " + pid)},
            "level_note": "; ".join(c.get("assumptions", [])),
            "technique": TECHNIQUE[pid],
        })
    else:
        m["not_applicable"].append({"property_id": pid, "reason": NOT_APPLICABLE.get(pid, "check not built yet in this session; see DESIGN.md")})
json.dump(m, open(os.path.join(os.path.dirname(os.path.abspath(__file__)), "MANIFEST.json"), "w"), indent=1)
print("MANIFEST.json: %d checks, %d not_applicable" % (len(m["checks"]), len(m["not_applicable"])))
