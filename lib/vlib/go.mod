module vlib

go 1.21
