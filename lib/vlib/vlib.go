// Package vlib is the worker side of the vcheck protocol: flag parsing, shard arithmetic,
// coverage accounting (evaluations, distinct non-trivial classes, outcomes, samples) and
// violation reporting.  A worker writes one JSON result file; the driver (vcheck) merges the
// shards, classifies violations against known_findings.txt, re-validates them by replay and
// writes the evidence file.  This package is never source-rewritten: it uses real time.
package vlib

import (
	"bufio"
	"encoding/binary"
	"encoding/json"
	"flag"
	"fmt"
	"os"
	"sort"
	"strings"
	"syscall"
	"time"
)

type Violation struct {
	Sig    string          `json:"sig"`
	Detail string          `json:"detail"`
	Replay json.RawMessage `json:"replay"`
	Count  int             `json:"count"`
}

type Out struct {
	Property    string            `json:"property"`
	Evals       int64             `json:"evals"`
	Transitions int64             `json:"transitions"`
	States      int64             `json:"states"`
	StateHashes string            `json:"state_hashes_file,omitempty"`
	ClassHashes string            `json:"class_hashes_file,omitempty"`
	Classes     []string          `json:"classes"`
	NClassesD   int64             `json:"nclasses_disjoint"`
	Outcomes    map[string]int64  `json:"outcomes"`
	Samples     []any             `json:"samples"`
	Violations  []*Violation      `json:"violations"`
	Exhaustive  bool              `json:"exhaustive"`
	Capped      string            `json:"capped,omitempty"`
	Bounds      map[string]any    `json:"bounds"`
	Notes       []string          `json:"notes,omitempty"`
	Counters    map[string]int64  `json:"counters,omitempty"`
	WallS       float64           `json:"wall_s"`
	classes     map[string]struct{}
	viol        map[string]*Violation
	classesD    map[uint64]struct{}
	stateSet    map[uint64]struct{}
	classesU    map[uint64]struct{}
	sampleSeen  int64
	sampleNext  int64
}

var (
	Shard      = flag.Int("shard", 0, "shard index")
	NShards    = flag.Int("nshards", 1, "number of shards")
	OutPath    = flag.String("out", "", "result file")
	ReplayPath = flag.String("replay", "", "replay file (run exactly that case)")
	DeadlineS  = flag.Float64("deadline", 0, "soft deadline in seconds (0 = none)")
	KnownFile  = flag.String("known-file", "", "known findings file")
	Tier       = flag.String("tier", "quick", "quick|thorough")
	Prop       = flag.String("prop", "", "property id")
	Verbose    = flag.Bool("v", false, "verbose")
	start      time.Time
	known      = map[string]bool{}
	R          *Out
)

// Init parses flags and prepares the result object.
func Init() *Out {
	flag.Parse()
	start = time.Now()
	R = &Out{Property: *Prop, Outcomes: map[string]int64{}, Bounds: map[string]any{}, Counters: map[string]int64{},
		classes: map[string]struct{}{}, classesD: map[uint64]struct{}{}, stateSet: map[uint64]struct{}{}, classesU: map[uint64]struct{}{}, viol: map[string]*Violation{}, Exhaustive: true}
	if *KnownFile != "" {
		loadKnown(*KnownFile, *Prop)
	}
	return R
}

func loadKnown(path, prop string) {
	f, err := os.Open(path)
	if err != nil {
		return
	}
	defer f.Close()
	sc := bufio.NewScanner(f)
	for sc.Scan() {
		l := strings.TrimSpace(sc.Text())
		if !strings.HasPrefix(l, "known:") {
			continue
		}
		var p, sig string
		for _, w := range strings.Fields(l) {
			if strings.HasPrefix(w, "property=") {
				p = w[len("property="):]
			}
			if strings.HasPrefix(w, "sig=") {
				sig = w[len("sig="):]
			}
		}
		if p == prop && sig != "" {
			known[sig] = true
		}
	}
}

// Known reports whether sig is a listed known finding of this property (so the monitor may
// tolerate exactly that step and keep exploring beyond it).
func Known(sig string) bool { return known[sig] }

// Mine reports whether work unit i belongs to this shard.
func Mine(i int) bool { return i%*NShards == *Shard }

// Expired reports whether the soft deadline has passed.
func Expired() bool {
	return *DeadlineS > 0 && time.Since(start).Seconds() > *DeadlineS
}
func Remaining() time.Duration {
	if *DeadlineS <= 0 {
		return 24 * time.Hour
	}
	return time.Duration((*DeadlineS - time.Since(start).Seconds()) * float64(time.Second))
}
// RealNow is the wall clock (harness sources are rewritten onto a virtual clock; vlib is not).
func RealNow() time.Time { return time.Now() }

func DeadlineTime() time.Time {
	if *DeadlineS <= 0 {
		return time.Time{}
	}
	return start.Add(time.Duration(*DeadlineS * float64(time.Second)))
}

func (o *Out) Eval()              { o.Evals++ }
func (o *Out) Class(k string)     { o.classes[k] = struct{}{} }

// ClassD records a distinct non-trivial case whose key is, by construction, never produced by
// another shard (it contains the work-unit index); only a 64-bit hash is kept and the driver sums
// the per-shard counts.
func (o *Out) ClassD(k string) {
	h := uint64(14695981039346656037)
	for i := 0; i < len(k); i++ {
		h ^= uint64(k[i])
		h *= 1099511628211
	}
	o.classesD[h] = struct{}{}
}

// ClassU records a distinct non-trivial case by key; only a hash is kept and the driver takes the
// union over all shards (use when the same case can be met by several shards).
func (o *Out) ClassU(k string) {
	h := uint64(14695981039346656037)
	for i := 0; i < len(k); i++ {
		h ^= uint64(k[i])
		h *= 1099511628211
	}
	o.classesU[h] = struct{}{}
}

// State records a visited (abstract) state by key; the driver unions the hashes of all shards.
func (o *Out) State(k string) {
	h := uint64(14695981039346656037)
	for i := 0; i < len(k); i++ {
		h ^= uint64(k[i])
		h *= 1099511628211
	}
	o.stateSet[h] = struct{}{}
}

// StateHash records an already hashed state.
func (o *Out) StateHash(h uint64) { o.stateSet[h] = struct{}{} }
func (o *Out) NStates() int       { return len(o.stateSet) }

func (o *Out) Outcome(k string)   { o.Outcomes[k]++ }
func (o *Out) Count(k string)     { o.Counters[k]++ }
func (o *Out) CountN(k string, n int64) { o.Counters[k] += n }
func (o *Out) Note(f string, a ...any) { o.Notes = append(o.Notes, fmt.Sprintf(f, a...)) }
func (o *Out) NClasses() int      { return len(o.classes) + len(o.classesD) }

// Sample keeps up to max samples.
func (o *Out) Sample(max int, s any) {
	o.sampleSeen++
	if len(o.Samples) < max && o.sampleSeen >= o.sampleNext {
		o.Samples = append(o.Samples, s)
		o.sampleNext = o.sampleSeen*7 + 3
	}
}

// Cap records that the enumeration was cut short.
func (o *Out) Cap(why string) {
	o.Exhaustive = false
	if o.Capped == "" {
		o.Capped = why
	}
}

// Violate records a violation (first occurrence per signature keeps its replay payload).
// It returns true when the signature is a known finding.
func (o *Out) Violate(sig, detail string, replay any) bool {
	v, ok := o.viol[sig]
	if !ok {
		b, _ := json.Marshal(replay)
		if len(detail) > 1500 {
			detail = detail[:1500] + "…"
		}
		v = &Violation{Sig: sig, Detail: detail, Replay: b}
		o.viol[sig] = v
	}
	v.Count++
	return known[sig]
}

// HasUnknownViolation tells whether some recorded violation is not a known finding.
func (o *Out) HasUnknownViolation() bool {
	for s := range o.viol {
		if !known[s] {
			return true
		}
	}
	return false
}

// LoadReplay decodes the replay payload of *ReplayPath into v.
func LoadReplay(v any) {
	b, err := os.ReadFile(*ReplayPath)
	if err != nil {
		Fatal("read replay: %v", err)
	}
	var wrap struct {
		Replay json.RawMessage `json:"replay"`
	}
	if err := json.Unmarshal(b, &wrap); err != nil || wrap.Replay == nil {
		Fatal("bad replay file: %v", err)
	}
	if err := json.Unmarshal(wrap.Replay, v); err != nil {
		Fatal("bad replay payload: %v", err)
	}
}

func Fatal(f string, a ...any) {
	fmt.Fprintf(os.Stderr, "worker: "+f+"\n", a...)
	os.Exit(3)
}

// Finish writes the result file.
func (o *Out) Finish() {
	for k := range o.classes {
		o.Classes = append(o.Classes, k)
	}
	sort.Strings(o.Classes)
	o.NClassesD = int64(len(o.classesD))
	for _, v := range o.viol {
		o.Violations = append(o.Violations, v)
	}
	sort.Slice(o.Violations, func(i, j int) bool { return o.Violations[i].Sig < o.Violations[j].Sig })
	if len(o.stateSet) > 0 && *OutPath != "" {
		buf := make([]byte, 0, 8*len(o.stateSet))
		for h := range o.stateSet {
			buf = binary.LittleEndian.AppendUint64(buf, h)
		}
		o.StateHashes = *OutPath + ".states"
		if err := os.WriteFile(o.StateHashes, buf, 0o644); err != nil {
			Fatal("write states: %v", err)
		}
	} else if len(o.stateSet) > 0 {
		o.States += int64(len(o.stateSet))
	}
	if len(o.classesU) > 0 {
		if *OutPath != "" {
			buf := make([]byte, 0, 8*len(o.classesU))
			for h := range o.classesU {
				buf = binary.LittleEndian.AppendUint64(buf, h)
			}
			o.ClassHashes = *OutPath + ".classes"
			if err := os.WriteFile(o.ClassHashes, buf, 0o644); err != nil {
				Fatal("write classes: %v", err)
			}
		} else {
			o.NClassesD += int64(len(o.classesU))
		}
	}
	o.WallS = time.Since(start).Seconds()
	b, err := json.Marshal(o)
	if err != nil {
		Fatal("marshal: %v", err)
	}
	if *OutPath == "" {
		os.Stdout.Write(b)
		os.Stdout.WriteString("\n")
		return
	}
	if err := os.WriteFile(*OutPath, b, 0o644); err != nil {
		Fatal("write: %v", err)
	}
}

// ---- breadcrumb: survives a fatal (unrecoverable) runtime error of the worker ----

var crumb []byte

// Breadcrumb records "what the worker is about to do" (a tag and the input) in a small
// memory-mapped file next to the result file.  A Go fatal error (out of memory, stack overflow,
// concurrent map writes) cannot be recovered by the worker; the driver then reads this file and
// reports the crash as a violation with the input at hand.
func Breadcrumb(tag string, data []byte) {
	if crumb == nil {
		if *OutPath == "" {
			return
		}
		f, err := os.OpenFile(*OutPath+".crumb", os.O_RDWR|os.O_CREATE|os.O_TRUNC, 0o644)
		if err != nil {
			return
		}
		if err := f.Truncate(1 << 16); err != nil {
			return
		}
		m, err := syscall.Mmap(int(f.Fd()), 0, 1<<16, syscall.PROT_READ|syscall.PROT_WRITE, syscall.MAP_SHARED)
		if err != nil {
			return
		}
		crumb = m
	}
	n := len(tag) + 1 + len(data)
	if n > len(crumb)-4 {
		data = data[:len(crumb)-4-len(tag)-1]
		n = len(tag) + 1 + len(data)
	}
	binary.LittleEndian.PutUint32(crumb[0:4], uint32(n))
	copy(crumb[4:], tag)
	crumb[4+len(tag)] = 0
	copy(crumb[5+len(tag):], data)
}

// Show renders FIX bytes readably.
func Show(b []byte) string { return strings.ReplaceAll(string(b), "\x01", "|") }
