#!/usr/bin/env python3
"""benigncheck — run every check against a behaviour-preserving change (no alarm expected).

usage: benigncheck.py <id> <dir-with-patch.diff-and-meta.json> [property ...]
A scratch worktree of /repo HEAD (outside /repo and /verif, removed afterwards) gets the patch; the
tree must build and pass the repository's own tests; then ./vcheck <P> quick --repo <worktree> runs
for every property (or the listed ones).  A VIOLATION or a BROKEN run is printed and recorded in
/verif/benign/<id>/result.json together with the patch: either the change does break the property
(then it was not benign), or the check demands more than the property states / cannot cope with the
construct - which is a defect of the machinery to be corrected.
"""
import sys, os, json, subprocess, shutil, time

ENV = dict(os.environ, GOFLAGS="-mod=mod", GOPROXY="off", GOSUMDB="off", GOTOOLCHAIN="local")
VERIF = os.path.dirname(os.path.abspath(__file__))


def sh(cmd, cwd=None, timeout=3600):
    p = subprocess.run(cmd, shell=True, cwd=cwd, env=ENV, stdout=subprocess.PIPE, stderr=subprocess.STDOUT, timeout=timeout)
    return p.returncode, p.stdout.decode("utf-8", "replace")


def main():
    bid, src = sys.argv[1], sys.argv[2]
    props = sys.argv[3:] or ["C%02d" % i for i in range(1, 21)]
    wt = "/tmp/bn-%s" % bid
    sh("git -C /repo worktree remove --force %s" % wt)
    shutil.rmtree(wt, ignore_errors=True)
    rc, out = sh("git -C /repo worktree add --detach %s HEAD" % wt)
    res = dict(id=bid, checks={})
    d = os.path.join(VERIF, "benign", bid)
    os.makedirs(d, exist_ok=True)
    for f in ("patch.diff", "meta.json"):
        if os.path.abspath(src) != os.path.abspath(d) and os.path.exists(os.path.join(src, f)):
            shutil.copy(os.path.join(src, f), os.path.join(d, f))
    try:
        rc, out = sh("git apply %s" % os.path.join(d, "patch.diff"), cwd=wt)
        res["applies"] = rc == 0
        if rc != 0:
            res["note"] = out[-800:]
            return finish(d, res)
        rc, out = sh("go build ./... && go test -vet=off -count=1 ./...", cwd=wt)
        if rc != 0:
            rc, out = sh("go test -vet=off -count=1 ./...", cwd=wt)
        res["suite"] = "pass" if rc == 0 else "FAIL"
        if rc != 0:
            res["note"] = out[-1500:]
        for p in props:
            t0 = time.time()
            rc, out = sh("%s/vcheck %s quick --repo %s" % (VERIF, p, wt), cwd=VERIF)
            viol = [l[:400] for l in out.splitlines() if l.startswith("VIOLATION") or l.strip().startswith("sig=")]
            broken = [l[:600] for l in out.splitlines() if l.startswith("BROKEN")]
            verdict = "ok" if rc == 0 else ("ALARM" if rc == 1 else "BROKEN")
            res["checks"][p] = dict(verdict=verdict, wall_s=round(time.time() - t0, 1), lines=(viol + broken)[:6], tail=out[-600:] if rc not in (0, 1) else "")
            print("%s %s %s %.0fs %s" % (bid, p, verdict, time.time() - t0, (viol + broken)[:1]), flush=True)
        return finish(d, res)
    finally:
        sh("git -C /repo worktree remove --force %s" % wt)
        shutil.rmtree(wt, ignore_errors=True)


def finish(d, res):
    json.dump(res, open(os.path.join(d, "result.json"), "w"), indent=1)
    bad = [p for p, v in res.get("checks", {}).items() if v["verdict"] != "ok"]
    print("%s: applies=%s suite=%s not-ok=%s" % (res["id"], res.get("applies"), res.get("suite"), bad))


if __name__ == "__main__":
    main()
