// Package sync is the vsched shim for the standard sync package.  Each primitive keeps its
// logical state in plain fields (read by guards in scheduler context) and additionally performs
// a real, never-contended operation on a real primitive after being granted, so that the Go race
// detector sees exactly the program-level happens-before edges (DESIGN.md §2.6).
package sync

import (
	"fmt"
	"sort"
	stdsync "sync"
	"vsched"
)

type Locker interface {
	Lock()
	Unlock()
}

type Mutex struct {
	held bool
	id   int
	real stdsync.Mutex
}

func (m *Mutex) Lock() {
	vsched.PointOp("lock", vsched.ObjID(&m.id), func() bool { return mutexFree(m) })
	if vsched.Aborting() {
		return
	}
	m.held = true
	m.real.Lock()
}
func (m *Mutex) TryLock() bool {
	vsched.PointOp("trylock", vsched.ObjID(&m.id), nil)
	if m.held {
		return false
	}
	m.held = true
	m.real.Lock()
	return true
}
func (m *Mutex) Unlock() {
	vsched.PointOp("unlock", vsched.ObjID(&m.id), nil)
	if !m.held && !vsched.Aborting() {
		panic("sync: unlock of unlocked mutex")
	}
	if m.held {
		m.real.Unlock()
	}
	m.held = false
}

type RWMutex struct {
	w       bool
	readers int
	id      int
	real    stdsync.RWMutex
}

func (m *RWMutex) Lock() {
	vsched.PointOp("wlock", vsched.ObjID(&m.id), func() bool { return rwFreeW(m) })
	if vsched.Aborting() {
		return
	}
	m.w = true
	m.real.Lock()
}
func (m *RWMutex) Unlock() {
	vsched.PointOp("wunlock", vsched.ObjID(&m.id), nil)
	if !m.w && !vsched.Aborting() {
		panic("sync: Unlock of unlocked RWMutex")
	}
	if m.w {
		m.real.Unlock()
	}
	m.w = false
}
func (m *RWMutex) RLock() {
	vsched.PointOp("rlock", vsched.ObjID(&m.id), func() bool { return rwFreeR(m) })
	if vsched.Aborting() {
		return
	}
	m.readers++
	m.real.RLock()
}
func (m *RWMutex) RUnlock() {
	vsched.PointOp("runlock", vsched.ObjID(&m.id), nil)
	if m.readers <= 0 && !vsched.Aborting() {
		panic("sync: RUnlock of unlocked RWMutex")
	}
	if m.readers > 0 {
		m.real.RUnlock()
		m.readers--
	}
}

// Pool: Get and Put are scheduling points; in addition the caller may be descheduled right after a
// Put (a second point after the effect).  Everywhere else a switch just after an operation is the
// same as one just before the task's next operation, because nothing a task does in between is
// visible to the others; a Put is the exception, since it publishes an object the task may go on
// touching - exactly the mistake a pool invites.  Items are handed out last-in first-out; a pool that
// outlives an execution (package-level variable) starts every execution empty.  The happens-before
// edge is the runtime's: Put(x) before the Get that returns x.
type Pool struct {
	New   func() any
	items []poolItem
	id    int
	run   int
}

type poolItem struct {
	v  any
	hb *stdsync.Mutex
}

func (p *Pool) fresh() {
	if p.run != vsched.RunSeq {
		p.run, p.items = vsched.RunSeq, nil
	}
}

func (p *Pool) Get() any {
	vsched.PointOp("pool.get", vsched.ObjID(&p.id), nil)
	p.fresh()
	if n := len(p.items); n > 0 {
		it := p.items[n-1]
		p.items = p.items[:n-1]
		it.hb.Lock()
		it.hb.Unlock()
		return it.v
	}
	if p.New != nil {
		return p.New()
	}
	return nil
}

func (p *Pool) Put(x any) {
	vsched.PointOp("pool.put", vsched.ObjID(&p.id), nil)
	if vsched.Aborting() {
		return
	}
	p.fresh()
	hb := new(stdsync.Mutex)
	hb.Lock()
	hb.Unlock()
	p.items = append(p.items, poolItem{x, hb})
	vsched.PointOp("pool.put-done", vsched.ObjID(&p.id), nil)
}

type Once struct {
	done bool
	m    Mutex
}

func (o *Once) Do(f func()) {
	o.m.Lock()
	defer o.m.Unlock()
	if !o.done {
		defer onceDone(o)
		f()
	}
}

// WaitGroup: the logical counter is plain data; the happens-before edges (Done before the Wait that
// it releases, and no edge between two Done calls) are those of a real WaitGroup operated in
// lockstep, whose Wait is only ever called with the counter at zero and therefore never blocks.
type WaitGroup struct {
	n    int
	id   int
	real stdsync.WaitGroup
}

func (wg *WaitGroup) Add(d int) {
	vsched.PointOp("wg.add", vsched.ObjID(&wg.id), nil)
	if vsched.Aborting() {
		return
	}
	if wg.n+d < 0 {
		panic("sync: negative WaitGroup counter")
	}
	wg.n += d
	wg.real.Add(d)
}
func (wg *WaitGroup) Done() { wg.Add(-1) }
func (wg *WaitGroup) Wait() {
	vsched.PointOp("wg.wait", vsched.ObjID(&wg.id), func() bool { return wgZero(wg) })
	if vsched.Aborting() {
		return
	}
	wg.real.Wait()
}

func mutexFree(m *Mutex) bool   { return !m.held }
func rwFreeW(m *RWMutex) bool   { return !m.w && m.readers == 0 }
func rwFreeR(m *RWMutex) bool   { return !m.w }
func wgZero(wg *WaitGroup) bool { return wg.n == 0 }
func onceDone(o *Once)          { o.done = true }

// Map: sync.Map on the controlled scheduler - a mutex-protected map; every operation is a scheduling point (through
// the mutex) and orders itself after the earlier operations on the map (for the race gate that is at least the
// happens-before the real sync.Map guarantees between a Store and the Load that observes it).
type Map struct {
	mu Mutex
	m  map[any]any
}

func (m *Map) Load(key any) (value any, ok bool) {
	m.mu.Lock()
	defer m.mu.Unlock()
	value, ok = m.m[key]
	return
}

func (m *Map) Store(key, value any) {
	m.mu.Lock()
	defer m.mu.Unlock()
	if m.m == nil {
		m.m = map[any]any{}
	}
	m.m[key] = value
}

func (m *Map) LoadOrStore(key, value any) (actual any, loaded bool) {
	m.mu.Lock()
	defer m.mu.Unlock()
	if v, ok := m.m[key]; ok {
		return v, true
	}
	if m.m == nil {
		m.m = map[any]any{}
	}
	m.m[key] = value
	return value, false
}

func (m *Map) LoadAndDelete(key any) (value any, loaded bool) {
	m.mu.Lock()
	defer m.mu.Unlock()
	value, loaded = m.m[key]
	delete(m.m, key)
	return
}

func (m *Map) Delete(key any) { m.LoadAndDelete(key) }

func (m *Map) Swap(key, value any) (previous any, loaded bool) {
	m.mu.Lock()
	defer m.mu.Unlock()
	previous, loaded = m.m[key]
	if m.m == nil {
		m.m = map[any]any{}
	}
	m.m[key] = value
	return
}

func (m *Map) CompareAndSwap(key, old, new any) bool {
	m.mu.Lock()
	defer m.mu.Unlock()
	if v, ok := m.m[key]; ok && v == old {
		m.m[key] = new
		return true
	}
	return false
}

func (m *Map) CompareAndDelete(key, old any) bool {
	m.mu.Lock()
	defer m.mu.Unlock()
	if v, ok := m.m[key]; ok && v == old {
		delete(m.m, key)
		return true
	}
	return false
}

// Range calls f for a snapshot of the entries (in insertion-independent, sorted-by-print order so that executions
// are reproducible), outside the lock, as sync.Map does.
func (m *Map) Range(f func(key, value any) bool) {
	m.mu.Lock()
	type kv struct{ k, v any }
	var es []kv
	for k, v := range m.m {
		es = append(es, kv{k, v})
	}
	m.mu.Unlock()
	sort.Slice(es, func(i, j int) bool { return fmt.Sprint(es[i].k) < fmt.Sprint(es[j].k) })
	for _, e := range es {
		if !f(e.k, e.v) {
			return
		}
	}
}

func (m *Map) Clear() {
	m.mu.Lock()
	defer m.mu.Unlock()
	m.m = nil
}
