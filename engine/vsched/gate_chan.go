//go:build !racegate

package vsched

type gate struct{ ch chan struct{} }

func newGate() gate { return gate{ch: make(chan struct{}, 1)} }
func (g *gate) wake() {
	select {
	case g.ch <- struct{}{}:
	default:
	}
}
func (g *gate) wait() { <-g.ch }

const RaceGate = false
