package vsched

import stdtime "time"

// spawn creates a task without a scheduling point (used from timer context).
func (s *Sched) spawn(name string, f func()) {
	t := s.newTask(name)
	t.guard = alwaysTrue
	t.op = "start"
	go taskMain(s, t, f)
}

// TimerSend deposits a tick without blocking (drops it if the buffer is full), from timer context.
func TimerSend(c *Chan[stdtime.Time]) {
	if c.canSend(nil) && !c.closed {
		c.doSend(nil, Now())
	}
}

func AddTicker(d stdtime.Duration, c *Chan[stdtime.Time]) (stop func()) {
	s := S
	if s == nil || s.abort {
		return func() {}
	}
	tm := s.addTimer(d, d, func() { TimerSend(c) }, func() bool { return tickerLive(c) })
	return func() { stopTimer(tm) }
}

func AddOneShot(d stdtime.Duration, f func()) (stop func() bool) {
	s := S
	if s == nil || s.abort {
		return func() bool { return false }
	}
	tm := s.addTimer(d, 0, f, nil)
	return func() bool { return stopTimer(tm) }
}

// afStub is the goroutine of a time.AfterFunc callback.  The runtime orders the callback after the
// call that armed the timer and after nothing else; a goroutine started by whichever task happens
// to run the scheduler when the timer fires would instead inherit that task's history (an edge too
// many for the race gate) and miss the arming task's.  So the go statement is issued by the arming
// task, the goroutine parks, and it becomes a task of the scheduler only when the timer fires (task
// ids, and with them the canonical schedule, are those of a task created at that moment).
type afStub struct {
	gate      gate
	t         *Task
	f         func()
	cancelled bool
	started   bool
	exited    chan struct{}
}

func afterFuncStub(s *Sched, st *afStub) {
	st.gate.wait()
	if st.cancelled {
		close(st.exited)
		return
	}
	taskMain(s, st.t, st.f)
}

func fireStub(s *Sched, st *afStub, name string) {
	if st.cancelled || st.started {
		return
	}
	t := s.newTask(name)
	t.guard = alwaysTrue
	t.op = "start"
	st.t, st.started = t, true
	st.gate.wake()
}

func cancelStub(st *afStub) {
	if st.started || st.cancelled {
		return
	}
	st.cancelled = true
	st.gate.wake()
}

func AfterFuncSpawn(d stdtime.Duration, f func()) (stop func() bool) {
	s := S
	if s == nil || s.abort {
		return func() bool { return false }
	}
	name := "AfterFunc:" + callerSite(2)
	st := &afStub{gate: newGate(), f: f, exited: make(chan struct{})}
	s.stubs = append(s.stubs, st)
	go afterFuncStub(s, st)
	tm := s.addTimer(d, 0, func() { fireStub(s, st, name) }, nil)
	return func() bool {
		was := stopTimer(tm)
		if was {
			cancelStub(st)
		}
		return was
	}
}

func Sleep(d stdtime.Duration) {
	s := S
	if s == nil || s.abort {
		return
	}
	w := &sleeper{}
	s.addTimer(d, 0, func() { wakeSleeper(w) }, nil)
	PointOp("sleep", 0, func() bool { return sleeperWoken(w) })
}

// SleepUntil parks the caller until the virtual clock reaches offset at (no-op if already past).
func SleepUntil(at stdtime.Duration) {
	if S == nil || S.abort || at <= S.now {
		return
	}
	Sleep(at - S.now)
}

type sleeper struct{ woken bool }

func wakeSleeper(w *sleeper)       { w.woken = true }
func sleeperWoken(w *sleeper) bool { return w.woken }

// a ticker whose buffer is full and that nobody waits on cannot change the state: skip it
func tickerLive(c *Chan[stdtime.Time]) bool { return len(c.buf) < c.capN }
func stopTimer(tm *timer) bool {
	was := !tm.dead
	tm.dead = true
	return was
}
