package vsched

import stdtime "time"

// spawn creates a task without a scheduling point (used from timer context).
func (s *Sched) spawn(name string, f func()) {
	t := s.newTask(name)
	t.guard = alwaysTrue
	t.op = "start"
	go taskMain(s, t, f)
}

// TimerSend deposits a tick without blocking (drops it if the buffer is full), from timer context.
func TimerSend(c *Chan[stdtime.Time]) {
	if c.canSend(nil) && !c.closed {
		c.doSend(nil, Now())
	}
}

func AddTicker(d stdtime.Duration, c *Chan[stdtime.Time]) (stop func()) {
	s := S
	if s == nil || s.abort {
		return func() {}
	}
	tm := s.addTimer(d, d, func() { TimerSend(c) }, func() bool { return tickerLive(c) })
	return func() { stopTimer(tm) }
}

func AddOneShot(d stdtime.Duration, f func()) (stop func() bool) {
	s := S
	if s == nil || s.abort {
		return func() bool { return false }
	}
	tm := s.addTimer(d, 0, f, nil)
	return func() bool { return stopTimer(tm) }
}

func AfterFuncSpawn(d stdtime.Duration, f func()) (stop func() bool) {
	s := S
	if s == nil || s.abort {
		return func() bool { return false }
	}
	name := "AfterFunc:" + callerSite(2)
	return AddOneShot(d, func() { s.spawn(name, f) })
}

func Sleep(d stdtime.Duration) {
	s := S
	if s == nil || s.abort {
		return
	}
	w := &sleeper{}
	s.addTimer(d, 0, func() { wakeSleeper(w) }, nil)
	PointOp("sleep", 0, func() bool { return sleeperWoken(w) })
}

// SleepUntil parks the caller until the virtual clock reaches offset at (no-op if already past).
func SleepUntil(at stdtime.Duration) {
	if S == nil || S.abort || at <= S.now {
		return
	}
	Sleep(at - S.now)
}

type sleeper struct{ woken bool }

func wakeSleeper(w *sleeper)       { w.woken = true }
func sleeperWoken(w *sleeper) bool { return w.woken }

// a ticker whose buffer is full and that nobody waits on cannot change the state: skip it
func tickerLive(c *Chan[stdtime.Time]) bool { return len(c.buf) < c.capN }
func stopTimer(tm *timer) bool {
	was := !tm.dead
	tm.dead = true
	return was
}
