package errgroup

// Shim of golang.org/x/sync/errgroup on the controlled scheduler (same observable behaviour: Wait returns the
// first non-nil error; a group made by WithContext cancels its context on the first error and when Wait returns).

import (
	"vsched"
	"vsched/context"
	"vsched/sync"
)

type Group struct {
	cancel  func()
	wg      sync.WaitGroup
	sem     *vsched.Chan[struct{}]
	errOnce sync.Once
	err     error
}

func WithContext(ctx context.Context) (*Group, context.Context) {
	ctx, cancel := context.WithCancel(ctx)
	return &Group{cancel: cancel}, ctx
}

func (g *Group) done() {
	if g.sem != nil {
		g.sem.Recv()
	}
	g.wg.Done()
}

func (g *Group) Wait() error {
	g.wg.Wait()
	if g.cancel != nil {
		g.cancel()
	}
	return g.err
}

func (g *Group) run(f func() error) {
	vsched.GoNamed("", func() {
		defer g.done()
		if err := f(); err != nil {
			g.errOnce.Do(func() {
				g.err = err
				if g.cancel != nil {
					g.cancel()
				}
			})
		}
	})
}

func (g *Group) Go(f func() error) {
	if g.sem != nil {
		g.sem.Send(struct{}{})
	}
	g.wg.Add(1)
	g.run(f)
}

func (g *Group) TryGo(f func() error) bool {
	if g.sem != nil {
		// the scheduler is cooperative: nothing runs between this test and the send, which cannot block then
		if g.sem.Len() >= g.sem.Cap() {
			return false
		}
		g.sem.Send(struct{}{})
	}
	g.wg.Add(1)
	g.run(f)
	return true
}

func (g *Group) SetLimit(n int) {
	if n < 0 {
		g.sem = nil
		return
	}
	g.sem = vsched.NewChan[struct{}](n)
}
