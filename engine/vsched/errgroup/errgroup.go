package errgroup

import (
	"vsched"
	"vsched/sync"
)

type Group struct {
	wg      sync.WaitGroup
	errOnce sync.Once
	err     error
}

func (g *Group) Wait() error {
	g.wg.Wait()
	return g.err
}

func (g *Group) Go(f func() error) {
	g.wg.Add(1)
	vsched.GoNamed("", func() {
		defer g.wg.Done()
		if err := f(); err != nil {
			g.errOnce.Do(func() { g.err = err })
		}
	})
}
