package vsched

import (
	stdtime "time"
)

// Explorer performs stateless depth-first search over choice lists with iterative deviation
// bounding: every execution whose total deviation cost is <= Bound is run exactly once per
// bound iteration, to completion, and handed to Check.
type Explorer struct {
	Bound      int  // deviation bound to reach (iterated Start,..,Bound)
	Start      int  // first bound iterated (0 = iterate from 0; Start == Bound runs the final iteration only)
	Strict     bool // strict virtual time
	Shard      int  // this process explores the level-1 subtrees with index % NShards == Shard
	NShards    int
	Deadline   stdtime.Time // real time; zero = none
	MaxExec    int          // 0 = unlimited
	WantStacks bool
	MaxSteps   int
	Body       func()
	// Check is called after each execution; return false to stop the whole search.
	Check func(choices []int, cost int, r *Result) bool

	// results
	Execs          int   // executions run (all iterations)
	ExecsAtBound   []int // executions with cost exactly k, for the last iteration that ran
	BoundCompleted int   // highest bound whose iteration completed (-1 if none)
	Capped         string
	MaxPoints      int
	stop           bool
}

func (e *Explorer) Run() {
	if e.NShards <= 0 {
		e.NShards = 1
	}
	e.BoundCompleted = -1
	for b := e.Start; b <= e.Bound && !e.stop; b++ {
		e.ExecsAtBound = make([]int, b+1)
		e.iter(b)
		if e.stop {
			return
		}
		e.BoundCompleted = b
	}
}

func (e *Explorer) iter(bound int) {
	child := 0
	var rec func(prefix []int, pcost int, depth int)
	rec = func(prefix []int, pcost int, depth int) {
		if e.stop {
			return
		}
		if e.MaxExec > 0 && e.Execs >= e.MaxExec {
			e.Capped = "max-executions"
			e.stop = true
			return
		}
		if !e.Deadline.IsZero() && stdtime.Now().After(e.Deadline) {
			e.Capped = "deadline"
			e.stop = true
			return
		}
		own := depth > 0 || e.Shard == 0
		r := Run(Options{Prefix: prefix, StrictTime: e.Strict, WantStacks: e.WantStacks, MaxSteps: e.MaxSteps}, e.Body)
		if own {
			e.Execs++
			e.ExecsAtBound[pcost]++
			if len(r.Points) > e.MaxPoints {
				e.MaxPoints = len(r.Points)
			}
			choices := make([]int, len(r.Points))
			for i, p := range r.Points {
				choices[i] = p.Chosen
			}
			if !e.Check(choices, pcost, &r) {
				e.stop = true
				return
			}
		}
		for i := len(prefix); i < len(r.Points); i++ {
			p := r.Points[i]
			for alt := 1; alt < p.N; alt++ {
				ac := AltCost(p, alt)
				if pcost+ac > bound {
					continue
				}
				if depth == 0 {
					mine := child%e.NShards == e.Shard
					child++
					if !mine {
						continue
					}
				}
				np := make([]int, i+1)
				for j := 0; j < i; j++ {
					np[j] = r.Points[j].Chosen
				}
				np[i] = alt
				rec(np, pcost+ac, depth+1)
				if e.stop {
					return
				}
			}
		}
	}
	rec(nil, 0, 0)
}

// Replay runs body once with the given choice list.
func Replay(choices []int, strict bool, wantStacks bool, body func()) Result {
	return Run(Options{Prefix: choices, StrictTime: strict, WantStacks: wantStacks}, body)
}
