// Package atomic is the vsched shim for sync/atomic: each operation is a scheduling point and is
// carried out by the real atomic so the race detector sees it as such.
package atomic

import (
	stdatomic "sync/atomic"
	"vsched"
)

func AddInt64(p *int64, d int64) int64 {
	vsched.PointOp("atomic.add", 0, nil)
	return stdatomic.AddInt64(p, d)
}
func LoadInt64(p *int64) int64 { vsched.PointOp("atomic.load", 0, nil); return stdatomic.LoadInt64(p) }
func StoreInt64(p *int64, v int64) {
	vsched.PointOp("atomic.store", 0, nil)
	stdatomic.StoreInt64(p, v)
}
func AddInt32(p *int32, d int32) int32 {
	vsched.PointOp("atomic.add", 0, nil)
	return stdatomic.AddInt32(p, d)
}
func LoadInt32(p *int32) int32 { vsched.PointOp("atomic.load", 0, nil); return stdatomic.LoadInt32(p) }
func StoreInt32(p *int32, v int32) {
	vsched.PointOp("atomic.store", 0, nil)
	stdatomic.StoreInt32(p, v)
}
func CompareAndSwapInt64(p *int64, o, n int64) bool {
	vsched.PointOp("atomic.cas", 0, nil)
	return stdatomic.CompareAndSwapInt64(p, o, n)
}
func CompareAndSwapInt32(p *int32, o, n int32) bool {
	vsched.PointOp("atomic.cas", 0, nil)
	return stdatomic.CompareAndSwapInt32(p, o, n)
}

// ---- the rest of sync/atomic's function set and its types (every operation is a scheduling point and is carried
// out by the real primitive, so that the race detector sees it as atomic) ----

func pt(op string) { vsched.PointOp("atomic."+op, 0, nil) }

func SwapInt32(p *int32, v int32) int32 { pt("swap"); return stdatomic.SwapInt32(p, v) }
func SwapInt64(p *int64, v int64) int64 { pt("swap"); return stdatomic.SwapInt64(p, v) }

func AddUint32(p *uint32, d uint32) uint32  { pt("add"); return stdatomic.AddUint32(p, d) }
func LoadUint32(p *uint32) uint32           { pt("load"); return stdatomic.LoadUint32(p) }
func StoreUint32(p *uint32, v uint32)       { pt("store"); stdatomic.StoreUint32(p, v) }
func SwapUint32(p *uint32, v uint32) uint32 { pt("swap"); return stdatomic.SwapUint32(p, v) }
func CompareAndSwapUint32(p *uint32, o, n uint32) bool {
	pt("cas")
	return stdatomic.CompareAndSwapUint32(p, o, n)
}

func AddUint64(p *uint64, d uint64) uint64  { pt("add"); return stdatomic.AddUint64(p, d) }
func LoadUint64(p *uint64) uint64           { pt("load"); return stdatomic.LoadUint64(p) }
func StoreUint64(p *uint64, v uint64)       { pt("store"); stdatomic.StoreUint64(p, v) }
func SwapUint64(p *uint64, v uint64) uint64 { pt("swap"); return stdatomic.SwapUint64(p, v) }
func CompareAndSwapUint64(p *uint64, o, n uint64) bool {
	pt("cas")
	return stdatomic.CompareAndSwapUint64(p, o, n)
}

func AddUintptr(p *uintptr, d uintptr) uintptr { pt("add"); return stdatomic.AddUintptr(p, d) }
func LoadUintptr(p *uintptr) uintptr           { pt("load"); return stdatomic.LoadUintptr(p) }
func StoreUintptr(p *uintptr, v uintptr)       { pt("store"); stdatomic.StoreUintptr(p, v) }
func CompareAndSwapUintptr(p *uintptr, o, n uintptr) bool {
	pt("cas")
	return stdatomic.CompareAndSwapUintptr(p, o, n)
}

type Bool struct{ v stdatomic.Bool }

func (x *Bool) Load() bool                    { pt("load"); return x.v.Load() }
func (x *Bool) Store(b bool)                  { pt("store"); x.v.Store(b) }
func (x *Bool) Swap(b bool) bool              { pt("swap"); return x.v.Swap(b) }
func (x *Bool) CompareAndSwap(o, n bool) bool { pt("cas"); return x.v.CompareAndSwap(o, n) }

type Int32 struct{ v stdatomic.Int32 }

func (x *Int32) Load() int32                    { pt("load"); return x.v.Load() }
func (x *Int32) Store(n int32)                  { pt("store"); x.v.Store(n) }
func (x *Int32) Add(d int32) int32              { pt("add"); return x.v.Add(d) }
func (x *Int32) Swap(n int32) int32             { pt("swap"); return x.v.Swap(n) }
func (x *Int32) CompareAndSwap(o, n int32) bool { pt("cas"); return x.v.CompareAndSwap(o, n) }

type Int64 struct{ v stdatomic.Int64 }

func (x *Int64) Load() int64                    { pt("load"); return x.v.Load() }
func (x *Int64) Store(n int64)                  { pt("store"); x.v.Store(n) }
func (x *Int64) Add(d int64) int64              { pt("add"); return x.v.Add(d) }
func (x *Int64) Swap(n int64) int64             { pt("swap"); return x.v.Swap(n) }
func (x *Int64) CompareAndSwap(o, n int64) bool { pt("cas"); return x.v.CompareAndSwap(o, n) }

type Uint32 struct{ v stdatomic.Uint32 }

func (x *Uint32) Load() uint32                    { pt("load"); return x.v.Load() }
func (x *Uint32) Store(n uint32)                  { pt("store"); x.v.Store(n) }
func (x *Uint32) Add(d uint32) uint32             { pt("add"); return x.v.Add(d) }
func (x *Uint32) Swap(n uint32) uint32            { pt("swap"); return x.v.Swap(n) }
func (x *Uint32) CompareAndSwap(o, n uint32) bool { pt("cas"); return x.v.CompareAndSwap(o, n) }

type Uint64 struct{ v stdatomic.Uint64 }

func (x *Uint64) Load() uint64                    { pt("load"); return x.v.Load() }
func (x *Uint64) Store(n uint64)                  { pt("store"); x.v.Store(n) }
func (x *Uint64) Add(d uint64) uint64             { pt("add"); return x.v.Add(d) }
func (x *Uint64) Swap(n uint64) uint64            { pt("swap"); return x.v.Swap(n) }
func (x *Uint64) CompareAndSwap(o, n uint64) bool { pt("cas"); return x.v.CompareAndSwap(o, n) }

type Value struct{ v stdatomic.Value }

func (x *Value) Load() any                    { pt("load"); return x.v.Load() }
func (x *Value) Store(val any)                { pt("store"); x.v.Store(val) }
func (x *Value) Swap(val any) any             { pt("swap"); return x.v.Swap(val) }
func (x *Value) CompareAndSwap(o, n any) bool { pt("cas"); return x.v.CompareAndSwap(o, n) }

type Pointer[T any] struct{ v stdatomic.Pointer[T] }

func (x *Pointer[T]) Load() *T                    { pt("load"); return x.v.Load() }
func (x *Pointer[T]) Store(p *T)                  { pt("store"); x.v.Store(p) }
func (x *Pointer[T]) Swap(p *T) *T                { pt("swap"); return x.v.Swap(p) }
func (x *Pointer[T]) CompareAndSwap(o, n *T) bool { pt("cas"); return x.v.CompareAndSwap(o, n) }
