// Package atomic is the vsched shim for sync/atomic: each operation is a scheduling point and is
// carried out by the real atomic so the race detector sees it as such.
package atomic

import (
	stdatomic "sync/atomic"
	"vsched"
)

func AddInt64(p *int64, d int64) int64 {
	vsched.PointOp("atomic.add", 0, nil)
	return stdatomic.AddInt64(p, d)
}
func LoadInt64(p *int64) int64     { vsched.PointOp("atomic.load", 0, nil); return stdatomic.LoadInt64(p) }
func StoreInt64(p *int64, v int64) { vsched.PointOp("atomic.store", 0, nil); stdatomic.StoreInt64(p, v) }
func AddInt32(p *int32, d int32) int32 {
	vsched.PointOp("atomic.add", 0, nil)
	return stdatomic.AddInt32(p, d)
}
func LoadInt32(p *int32) int32     { vsched.PointOp("atomic.load", 0, nil); return stdatomic.LoadInt32(p) }
func StoreInt32(p *int32, v int32) { vsched.PointOp("atomic.store", 0, nil); stdatomic.StoreInt32(p, v) }
func CompareAndSwapInt64(p *int64, o, n int64) bool {
	vsched.PointOp("atomic.cas", 0, nil)
	return stdatomic.CompareAndSwapInt64(p, o, n)
}
func CompareAndSwapInt32(p *int32, o, n int32) bool {
	vsched.PointOp("atomic.cas", 0, nil)
	return stdatomic.CompareAndSwapInt32(p, o, n)
}
