//go:build racegate

package vsched

import "runtime"

// hand-off invisible to the race detector: plain flag, spun on in norace code.
type gate struct{ flag *bool }

func newGate() gate { return gate{flag: new(bool)} }

//go:norace
func (g *gate) wake() { *g.flag = true }

//go:norace
func (g *gate) wait() {
	for !*g.flag {
		runtime.Gosched()
	}
	*g.flag = false
}

const RaceGate = true
