// Package vsched is a controlled cooperative scheduler with virtual time for exhaustive,
// deviation-bounded exploration of real Go code whose concurrency constructs were rewritten
// (engine/rewrite) into calls to this package and its shims.
//
// Exactly one task (goroutine) runs at a time.  Every visible operation is "guard + effect":
// the task announces the operation with a guard and parks; the scheduler picks one task whose
// guard holds; that task performs the effect and runs on to its next visible operation.
// Every place where more than one continuation exists is a recorded choice point, so an
// execution is identified by its list of choices and can be replayed exactly.
//
// Rule for this package (needed by the race-gate variant, see DESIGN.md §2.6): closures created
// here only read their captures and call named functions; all state changes are in named funcs.
package vsched

import (
	"fmt"
	"runtime"
	"sort"
	"strings"
	stdsync "sync"
	stdtime "time"
)

type Task struct {
	id      int
	name    string
	gate    gate
	guard   func() bool // nil when running or done
	op      string
	obj     int
	done    bool
	yielded bool // last op was spin-like: others are preferred at zero cost
	urgent  bool // once enabled it is the default choice, even before the running task
	exited  chan struct{}
	stack   string
}

func (t *Task) ID() int { return t.id }
func (t *Task) String() string {
	return fmt.Sprintf("T%d(%s)@%s#%d", t.id, t.name, t.op, t.obj)
}

type timer struct {
	when   stdtime.Duration // virtual offset
	seq    int
	fire   func() // executed in scheduler context: no visible ops inside
	live   func() bool
	period stdtime.Duration
	dead   bool
}

// Point is one recorded choice point.
type Point struct {
	N        int  // number of alternatives
	Chosen   int  // alternative taken
	Kind     byte // 's' schedule, 'c' select case, 'e' environment / fault, 't' timer
	CurEn    bool // 's': the running task was itself enabled (switching away is a preemption)
	TimerAlt bool // 's': last alternative is "fire next timer early"
}

type Options struct {
	Prefix     []int
	StrictTime bool // timers fire only when no task is enabled (discrete-event semantics)
	MaxSteps   int
	WantStacks bool // record stacks of tasks still alive at the end (slower)
}

type Leak struct {
	Name  string // spawn site
	Op    string // blocking operation
	Obj   int
	Stack string
}

type Result struct {
	Points    []Point
	Steps     int
	Panic     string
	PanicTask string
	Leaked    []Leak
	Deadlock  bool
	// MainBlocked: the execution ended because nothing was enabled and no timer was pending while the main task
	// (the scenario body) was still waiting for something - a call it made never returned.  MainOp names the
	// operation it is blocked in.
	MainBlocked bool
	MainOp      string
	Capped    bool
	End       stdtime.Duration
}

type Sched struct {
	opts     Options
	tasks    []*Task
	cur      *Task
	now      stdtime.Duration
	timers   []*timer
	tseq     int
	points   []Point
	steps    int
	abort    bool
	doneGate gate
	res      Result
	det      int // >0: deterministic region, choices take the default and are not recorded
	nextObj  int
	timerAlt bool
	finished bool
	armSpan  int
	armStep  int // step at which the last urgent task was armed (-1 = none)
	stubs    []*afStub
	fp       func() uint64
}

// S is the active scheduler (one execution at a time per process).
var S *Sched

var Epoch = stdtime.Date(2024, 1, 1, 0, 0, 0, 0, stdtime.UTC)

func Now() stdtime.Time           { return Epoch.Add(S.now) }
func NowOffset() stdtime.Duration { return S.now }

// NewObj returns a fresh object id, assigned in creation order within the execution, so that
// operation descriptions (and state hashes) are identical across executions.
func NewObj() int {
	if S == nil {
		return 0
	}
	S.nextObj++
	return S.nextObj
}

// ObjID lazily assigns an id to a zero-value-usable object.
func ObjID(p *int) int {
	if *p == 0 {
		*p = NewObj()
	}
	return *p
}

// Stats accumulated over all executions of this process.
var (
	TotalSteps  int64
	stateTab    []uint64 // open-addressing hash set (no Go map: map operations are race-instrumented inside the runtime even when called from //go:norace code)
	stateN      int
	stateCap    = 3000000
	StateCapHit bool
	TrackStates = true
)

func StateCount() int { return stateN }
func StateHashes() []uint64 {
	out := make([]uint64, 0, stateN)
	for _, k := range stateTab {
		if k != 0 {
			out = append(out, k)
		}
	}
	return out
}

// stateAdd inserts h (0 is mapped to 1) and reports whether it was new.
func stateAdd(h uint64) bool {
	if h == 0 {
		h = 1
	}
	if len(stateTab) == 0 {
		stateTab = make([]uint64, 1<<16)
	}
	if stateN*2 >= len(stateTab) {
		old := stateTab
		stateTab = make([]uint64, len(old)*2)
		stateN = 0
		for _, k := range old {
			if k != 0 {
				stateInsert(k)
			}
		}
	}
	return stateInsert(h)
}

func stateInsert(h uint64) bool {
	mask := uint64(len(stateTab) - 1)
	i := (h * 0x9e3779b97f4a7c15) & mask
	for {
		switch stateTab[i] {
		case 0:
			stateTab[i] = h
			stateN++
			return true
		case h:
			return false
		}
		i = (i + 1) & mask
	}
}

// SetFingerprint installs a harness-supplied data fingerprint mixed into every state hash.
func SetFingerprint(f func() uint64) {
	if S != nil {
		S.fp = f
	}
}

// Run executes main under a fresh scheduler and returns when the execution is over.
// RunSeq counts executions: package-level state of shims (a sync.Pool declared at package level in
// the code under test) is reset when it is first touched in a new execution, so that every
// execution starts from the same state.
var RunSeq int

func Run(opts Options, main func()) Result {
	RunSeq++
	s := &Sched{opts: opts, doneGate: newGate(), armStep: -1}
	if s.opts.MaxSteps == 0 {
		s.opts.MaxSteps = 400000
	}
	S = s
	t := s.newTask("main")
	s.cur = t
	go mainTask(s, t, main)
	s.doneGate.wait()
	// Release everything still parked, strictly one task at a time, so that deferred library
	// code that runs during the unwinding never executes concurrently.
	for i := 0; i < len(s.tasks); i++ {
		t := s.tasks[i]
		if t.done {
			continue
		}
		t.gate.wake()
		<-t.exited
	}
	for _, st := range s.stubs { // AfterFunc callbacks whose timer never fired
		if !st.started {
			cancelStub(st)
			<-st.exited
		}
	}
	for _, t := range s.tasks {
		if t.stack != "" {
			for i := range s.res.Leaked {
				if s.res.Leaked[i].Name == t.name && s.res.Leaked[i].Stack == "" && s.res.Leaked[i].Obj == t.obj {
					s.res.Leaked[i].Stack = t.stack
					break
				}
			}
		}
	}
	s.res.Points = s.points
	s.res.Steps = s.steps
	if s.armStep >= 0 {
		LastArmSpan = s.armSpan
	}
	s.res.End = s.now
	TotalSteps += int64(s.steps)
	S = nil
	return s.res
}

func mainTask(s *Sched, t *Task, main func()) {
	defer close(t.exited)
	defer s.taskExit(t)
	main()
}

func (s *Sched) newTask(name string) *Task {
	t := &Task{id: len(s.tasks), name: name, gate: newGate(), exited: make(chan struct{})}
	s.tasks = append(s.tasks, t)
	return t
}

// Go spawns a new task. The child becomes enabled immediately; the spawn itself is a
// scheduling point of the parent.
func Go(f func()) { GoNamed("", f) }

func GoNamed(name string, f func()) {
	s := S
	if s == nil || s.abort {
		return
	}
	if name == "" {
		name = callerSite(2)
	}
	t := s.newTask(name)
	t.guard = alwaysTrue
	t.op = "start"
	go taskMain(s, t, f)
	PointOp("go", 0, nil)
}

func callerSite(skip int) string {
	pcs := make([]uintptr, 8)
	n := runtime.Callers(skip+1, pcs)
	fr := runtime.CallersFrames(pcs[:n])
	for {
		f, more := fr.Next()
		if !strings.Contains(f.File, "/vsched/") {
			fn := f.Function
			if i := strings.LastIndex(fn, "/"); i >= 0 {
				fn = fn[i+1:]
			}
			return fn
		}
		if !more {
			return "?"
		}
	}
}

func taskMain(s *Sched, t *Task, f func()) {
	defer close(t.exited)
	t.gate.wait()
	if s.abort {
		t.done = true
		return
	}
	defer s.taskExit(t)
	f()
}

func (s *Sched) taskExit(t *Task) {
	if r := recover(); r != nil {
		if s.res.Panic == "" && !s.abort {
			buf := make([]byte, 8192)
			buf = buf[:runtime.Stack(buf, false)]
			s.res.Panic = fmt.Sprintf("%v\n%s", r, buf)
			s.res.PanicTask = t.name
		}
	}
	t.done = true
	t.guard = nil
	if s.abort {
		return
	}
	if t.id == 0 || s.res.Panic != "" {
		s.finish()
		return
	}
	s.schedule(t)
}

func (s *Sched) finish() {
	if s.finished {
		return
	}
	s.finished = true
	for _, t := range s.tasks {
		if !t.done && t.id != 0 {
			s.res.Leaked = append(s.res.Leaked, Leak{Name: t.name, Op: t.op, Obj: t.obj})
		}
	}
	s.abort = true
	s.doneGate.wake()
}

// LastArmSpan is the number of scheduler steps the last execution ran after arming its urgent task
// until the harness main task went on to its final phase (see MarkSpanEnd).
var LastArmSpan int

// GoUrgentAt spawns a task that becomes enabled k scheduler steps from now and is then the default
// choice at the next scheduling point, ahead of the running task: the harness uses it to inject an
// environment event (a termination cause) at an exact position of the execution.
func GoUrgentAt(k int, name string, f func()) {
	s := S
	if s == nil || s.abort {
		return
	}
	t := s.newTask(name)
	t.urgent = true
	at := s.steps + k
	s.armStep = s.steps
	s.armSpan = 0
	t.guard = func() bool { return stepsReached(s, at) }
	t.op = "armed"
	go taskMain(s, t, f)
}

func stepsReached(s *Sched, at int) bool { return s.steps >= at }

// MarkSpanEnd records how many steps have passed since the urgent task was armed.
func MarkSpanEnd() {
	if S != nil && S.armStep >= 0 && S.armSpan == 0 {
		S.armSpan = S.steps - S.armStep
	}
}

// exitNow ends the calling task during the abort phase.
func (s *Sched) exitNow(t *Task) {
	if s.opts.WantStacks && t.stack == "" {
		buf := make([]byte, 6144)
		t.stack = string(buf[:runtime.Stack(buf, false)])
	}
	runtime.Goexit()
}

// PointOp is the single primitive: announce an operation with a guard; returns once granted.
// guard == nil means always enabled.
func PointOp(op string, obj int, guard func() bool) {
	s := S
	if s == nil {
		return
	}
	if s.abort {
		// unwinding: never block; an operation that could not proceed ends the task
		if guard != nil && !guard() {
			runtime.Goexit()
		}
		return
	}
	t := s.cur
	if guard == nil {
		guard = alwaysTrue
	}
	t.guard = guard
	t.op = op
	t.obj = obj
	s.schedule(t)
}

// Yield marks a spin-like step: other enabled tasks are preferred at zero cost.
func Yield() {
	if S == nil || S.abort {
		return
	}
	S.cur.yielded = true
	PointOp("yield", 0, nil)
}

// Preempt is a plain scheduling point (used inside harness callbacks to model arbitrary delays in
// application code): the task stays enabled, so switching away from it counts as a preemption.
func Preempt() {
	if S == nil || S.abort {
		return
	}
	PointOp("point", 0, nil)
}

// MarkYield makes the *next* point of the current task a yielding one.
func MarkYield() {
	if S == nil || S.abort {
		return
	}
	S.cur.yielded = true
}

func alwaysTrue() bool { return true }

// DelayBounding selects the deviation measure: false = preemption bounding (CHESS: switches
// forced by blocking are free), true = delay bounding (every departure from the canonical
// deterministic scheduler costs one).
var DelayBounding = false

// schedule is called by the current task `me`, which is either about to park with a guard or done.
func (s *Sched) schedule(me *Task) {
	for {
		s.steps++
		if s.steps > s.opts.MaxSteps {
			s.res.Capped = true
			s.finish()
			if !me.done {
				me.gate.wait()
				s.exitNow(me)
			}
			return
		}
		var en []*Task
		meEn := false
		for _, t := range s.tasks {
			if !t.done && t.guard != nil && t.guard() {
				if t == me {
					meEn = true
				} else {
					en = append(en, t)
				}
			}
		}
		if TrackStates {
			s.recordState(en, meEn, me)
		}
		preferOthers := me.yielded
		me.yielded = false
		// canonical order: running task first (if enabled and not yielding), then ascending ids
		var alts []*Task
		for _, t := range en {
			if t.urgent {
				alts = append(alts, t)
			}
		}
		nUrgent := len(alts)
		if meEn && !preferOthers {
			alts = append(alts, me)
		}
		for _, t := range en {
			if !t.urgent {
				alts = append(alts, t)
			}
		}
		if meEn && preferOthers {
			alts = append(alts, me)
		}
		if preferOthers && meEn && len(en) == 0 && me.op != "settle" && s.nextTimer() != nil {
			// only a spinning task is enabled: spinning takes time, so let the clock advance
			me.yielded = true
			s.fireNextTimer()
			continue
		}
		timerAlt := !s.opts.StrictTime && len(alts) > 0 && s.nextTimer() != nil
		if len(alts) == 0 {
			if s.fireNextTimer() {
				// everything that is due at this very instant fires together: tasks woken by different
				// timers of one instant are then enabled side by side (as they are in real time), instead of
				// the second one waiting for the first to run to quiescence
				for {
					tm := s.nextTimer()
					if tm == nil || tm.when > s.now {
						break
					}
					s.fireNextTimer()
				}
				continue
			}
			// nothing enabled and no timer pending: deadlock (or quiescent end with main blocked)
			s.res.Deadlock = true
			if m := s.tasks[0]; !m.done {
				s.res.MainBlocked = true
				s.res.MainOp = fmt.Sprintf("%s on object %d", m.op, m.obj)
			}
			s.finish()
			if !me.done {
				me.gate.wait()
				s.exitNow(me)
			}
			return
		}
		n := len(alts)
		if timerAlt {
			n++
		}
		idx := 0
		if n > 1 {
			s.timerAlt = timerAlt
			idx = s.choose(n, 's', (meEn && !preferOthers) || nUrgent > 0)
		}
		if idx >= len(alts) {
			s.fireNextTimer()
			continue
		}
		next := alts[idx]
		if next == me {
			me.guard = nil
			return
		}
		s.cur = next
		next.guard = nil
		next.gate.wake()
		if me.done {
			return
		}
		me.gate.wait()
		if s.abort {
			s.exitNow(me)
		}
		return
	}
}

func (s *Sched) recordState(en []*Task, meEn bool, me *Task) {
	if StateCapHit {
		return
	}
	h := uint64(14695981039346656037)
	for _, t := range s.tasks {
		if t.done {
			continue
		}
		h = mix64(h, uint64(t.id)*31+7)
		for i := 0; i < len(t.op); i++ {
			h = mix64(h, uint64(t.op[i]))
		}
		h = mix64(h, uint64(t.obj)+0x9e37)
		for i := 0; i < len(t.name); i++ {
			h = mix64(h, uint64(t.name[i]))
		}
	}
	h = mix64(h, uint64(me.id)+0x51ed)
	if s.fp != nil {
		h = mix64(h, s.fp())
	}
	// pending timers relative to now
	for _, tm := range s.timers {
		if !tm.dead {
			h = mix64(h, uint64(tm.when-s.now)+3)
		}
	}
	if stateN >= stateCap {
		StateCapHit = true
		return
	}
	stateAdd(h)
}

func mix64(h, x uint64) uint64 { return (h ^ x) * 1099511628211 }

// choose records a choice point.
func (s *Sched) choose(n int, kind byte, curEn bool) int {
	if s.det > 0 {
		return 0
	}
	i := len(s.points)
	c := 0
	if i < len(s.opts.Prefix) {
		c = s.opts.Prefix[i]
		if c >= n {
			panic(fmt.Sprintf("vsched: replay divergence at point %d: choice %d of %d", i, c, n))
		}
	}
	s.points = append(s.points, Point{N: n, Chosen: c, Kind: kind, CurEn: curEn, TimerAlt: kind == 's' && s.timerAlt})
	return c
}

// Choose is a data choice usable by shims and harnesses (select case, environment answers).
// Alternative 0 is the default; every other alternative costs one deviation.
func Choose(n int, kind byte) int {
	s := S
	if s == nil || s.abort || n <= 1 {
		return 0
	}
	return s.choose(n, kind, false)
}

// Deterministic runs f with every choice point taking its default without being recorded, so
// that a set-up phase (e.g. the logon handshake) does not multiply the explored space.
func Deterministic(f func()) {
	s := S
	if s == nil {
		f()
		return
	}
	detEnter(s)
	defer detLeave(s)
	f()
}
func detEnter(s *Sched) { s.det++ }
func detLeave(s *Sched) { s.det-- }

// AltCost is the deviation cost of taking alternative alt (> 0) at point p.
func AltCost(p Point, alt int) int {
	if p.Kind == 's' {
		if p.CurEn {
			return 1 // preemption
		}
		if p.TimerAlt && alt == p.N-1 {
			return 1 // early timer
		}
		if DelayBounding {
			return 1
		}
		return 0 // free switch among tasks after the running one blocked
	}
	return 1
}

// ---- virtual time ----

func (s *Sched) addTimer(d stdtime.Duration, period stdtime.Duration, fire func(), live func() bool) *timer {
	if d < 0 {
		d = 0
	}
	s.tseq++
	tm := &timer{when: s.now + d, seq: s.tseq, fire: fire, period: period, live: live}
	s.timers = append(s.timers, tm)
	return tm
}

func (s *Sched) nextTimer() *timer {
	var best *timer
	for _, tm := range s.timers {
		if tm.dead {
			continue
		}
		if tm.live != nil && !tm.live() {
			continue
		}
		if best == nil || tm.when < best.when || (tm.when == best.when && tm.seq < best.seq) {
			best = tm
		}
	}
	return best
}

func (s *Sched) fireNextTimer() bool {
	tm := s.nextTimer()
	if tm == nil {
		return false
	}
	if tm.when > s.now {
		s.now = tm.when
	}
	if tm.period > 0 {
		// a periodic timer skipped while not live re-aligns to the first tick after now
		for tm.when <= s.now {
			tm.when += tm.period
		}
	} else {
		tm.dead = true
	}
	tm.fire()
	if len(s.timers) > 64 {
		j := 0
		for _, x := range s.timers {
			if !x.dead {
				s.timers[j] = x
				j++
			}
		}
		for k := j; k < len(s.timers); k++ {
			s.timers[k] = nil
		}
		s.timers = s.timers[:j]
	}
	return true
}

// Settle parks the caller until no other task is enabled at the current virtual instant.
func Settle() {
	s := S
	if s == nil || s.abort {
		return
	}
	me := s.cur
	me.yielded = true
	PointOp("settle", 0, func() bool { return settleReady(s, me) })
}

func settleReady(s *Sched, me *Task) bool {
	for _, t := range s.tasks {
		if t != me && !t.done && t.guard != nil && t.guard() {
			return false
		}
	}
	return true
}

// Blocked describes all other tasks that are not finished.
func Blocked() []string {
	var out []string
	for _, t := range S.tasks {
		if !t.done && t != S.cur {
			out = append(out, t.String())
		}
	}
	sort.Strings(out)
	return out
}

// Alive returns the leak records (name + blocking op) of all other unfinished tasks.
func Alive() []Leak {
	var out []Leak
	for _, t := range S.tasks {
		if !t.done && t != S.cur {
			out = append(out, Leak{Name: t.name, Op: t.op, Obj: t.obj})
		}
	}
	return out
}

func Aborting() bool { return S == nil || S.abort }

var _ stdsync.Mutex
