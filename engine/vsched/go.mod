module vsched
go 1.21
