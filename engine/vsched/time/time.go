// Package time is the vsched shim for the standard time package (virtual clock).
package time

import (
	stdtime "time"
	"vsched"
)

type Time = stdtime.Time
type Duration = stdtime.Duration
type Location = stdtime.Location
type Month = stdtime.Month

const (
	Nanosecond  = stdtime.Nanosecond
	Microsecond = stdtime.Microsecond
	Millisecond = stdtime.Millisecond
	Second      = stdtime.Second
	Minute      = stdtime.Minute
	Hour        = stdtime.Hour
	RFC3339     = stdtime.RFC3339
)

var UTC = stdtime.UTC

func LoadLocation(n string) (*Location, error) { return stdtime.LoadLocation(n) }
func Parse(l, v string) (Time, error)          { return stdtime.Parse(l, v) }
func Date(y int, m Month, d, h, mi, s, ns int, l *Location) Time {
	return stdtime.Date(y, m, d, h, mi, s, ns, l)
}

func Now() Time             { return vsched.Now() }
func Since(t Time) Duration { return Now().Sub(t) }
func Until(t Time) Duration { return t.Sub(Now()) }

type Ticker struct {
	C    *vsched.Chan[Time]
	stop func()
}

func (t *Ticker) Stop() { t.stop() }

func (t *Ticker) Reset(d Duration) {
	if d <= 0 {
		panic("non-positive interval for Ticker.Reset")
	}
	t.stop()
	t.stop = vsched.AddTicker(d, t.C)
}

func NewTicker(d Duration) *Ticker {
	if d <= 0 {
		panic("non-positive interval for NewTicker")
	}
	c := vsched.NewChan[Time](1)
	stop := vsched.AddTicker(d, c)
	return &Ticker{C: c, stop: stop}
}

type Timer struct {
	C    *vsched.Chan[Time]
	stop func() bool
	f    func()
}

func (t *Timer) Stop() bool { return t.stop() }

// Reset re-arms the timer (channel timers keep their channel, AfterFunc timers their function).
func (t *Timer) Reset(d Duration) bool {
	was := t.stop()
	if t.f != nil {
		t.stop = vsched.AfterFuncSpawn(d, t.f)
	} else {
		c := t.C
		t.stop = vsched.AddOneShot(d, func() { vsched.TimerSend(c) })
	}
	return was
}

func NewTimer(d Duration) *Timer {
	c := vsched.NewChan[Time](1)
	stop := vsched.AddOneShot(d, func() { vsched.TimerSend(c) })
	return &Timer{C: c, stop: stop}
}

func After(d Duration) *vsched.Chan[Time] { return NewTimer(d).C }

func AfterFunc(d Duration, f func()) *Timer {
	stop := vsched.AfterFuncSpawn(d, f)
	return &Timer{stop: stop, f: f}
}

func Sleep(d Duration) {
	if d <= 0 {
		vsched.Yield()
		return
	}
	vsched.Sleep(d)
}
