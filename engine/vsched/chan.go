package vsched

import (
	stdsync "sync"
	"unsafe"
)

type selState struct {
	done   bool
	chosen int
	task   *Task
}

type waiter[T any] struct {
	sel  *selState
	idx  int
	val  T
	ok   bool
	send bool
	// happens-before carriers for the race gate (see the comment on Chan)
	hb   stdsync.Mutex  // released by the waiter when it registers, acquired by whoever completes its operation
	slot *stdsync.Mutex // the slot object the completing party synchronised on; the waiter does the same when it resumes
}

// Chan models a Go channel on the controlled scheduler.
//
// Happens-before as the Go race detector is told about it by the runtime (runtime/chan.go): a
// buffered channel of non-empty elements has one synchronisation object per buffer slot, and the
// k-th send, the k-th receive and the (k+C)-th send each do a release-acquire on slot k mod C; an
// unbuffered channel and a channel of zero-size elements have a single object; close releases and a
// receive from a closed channel acquires a separate object.  The logical channel state is plain data
// read by guards in scheduler context; the objects below are real mutexes locked and unlocked,
// never contended, by the task that performs the operation, so that the detector sees exactly those
// edges and no others (an edge too many hides races, an edge too few invents them).  A party that
// was parked releases into its waiter's own object when it registers - the party that completes
// the operation acquires that - and repeats the slot synchronisation when it resumes.
type Chan[T any] struct {
	capN    int
	buf     []T
	closed  bool
	recvq   []*waiter[T]
	sendq   []*waiter[T]
	id      int
	slots   []stdsync.Mutex
	pend    [][]*stdsync.Mutex // per slot: clocks of parked parties the runtime would have put into the slot
	sx, rx  int                // operations so far at the tail / head of the buffer (slot = count mod len(slots))
	closeHB stdsync.Mutex
}

func NewChan[T any](n int) *Chan[T] {
	ns := 1
	var zero T
	if n > 0 && unsafe.Sizeof(zero) > 0 {
		ns = n
	}
	return &Chan[T]{capN: n, id: NewObj(), slots: make([]stdsync.Mutex, ns), pend: make([][]*stdsync.Mutex, ns)}
}

func hbSync(m *stdsync.Mutex) {
	m.Lock()
	m.Unlock()
}


func (c *Chan[T]) oid() int {
	if c == nil {
		return -1
	}
	return c.id
}

func (c *Chan[T]) live(q []*waiter[T], me *Task) (*waiter[T], int) {
	for i, w := range q {
		if !w.sel.done && w.sel.task != me {
			return w, i
		}
	}
	return nil, -1
}

func (c *Chan[T]) compact() {
	j := 0
	for _, w := range c.recvq {
		if !w.sel.done {
			c.recvq[j] = w
			j++
		}
	}
	c.recvq = c.recvq[:j]
	j = 0
	for _, w := range c.sendq {
		if !w.sel.done {
			c.sendq[j] = w
			j++
		}
	}
	c.sendq = c.sendq[:j]
}

func (c *Chan[T]) canSend(me *Task) bool {
	if c == nil {
		return false
	}
	if c.closed || len(c.buf) < c.capN {
		return true
	}
	if c.capN > 0 {
		// the buffer is full.  A receiver that has announced itself but has not been granted its
		// operation yet does not make room: the sender waits until the receive has happened.
		return false
	}
	w, _ := c.live(c.recvq, me)
	return w != nil
}

func (c *Chan[T]) canRecv(me *Task) bool {
	if c == nil {
		return false
	}
	if len(c.buf) > 0 || c.closed {
		return true
	}
	w, _ := c.live(c.sendq, me)
	return w != nil
}

// slotSync is the release-acquire of the running task on slot n (runtime: racenotify).  Clocks that
// the runtime put into the slot on behalf of a parked party (see park) are picked up here as well.
func (c *Chan[T]) slotSync(n int) *stdsync.Mutex {
	i := n % len(c.slots)
	hbSync(&c.slots[i])
	if len(c.pend[i]) > 0 {
		for _, p := range c.pend[i] {
			hbSync(p)
		}
		c.pend[i] = c.pend[i][:0]
	}
	return &c.slots[i]
}

// park records that the parked party w takes part in the operation on slot n: the runtime performs
// its release-acquire on the slot on its behalf, with the clock it had when it parked.  Here that
// clock sits in w.hb (released at registration); the next task that synchronises on the slot
// acquires it there, and w itself synchronises on the slot when it resumes.  The party completing
// the operation does not acquire it - except on an unbuffered channel, where a rendezvous orders
// both parties in both directions (runtime: racesync).
func (c *Chan[T]) park(w *waiter[T], n int, sl *stdsync.Mutex) {
	w.slot = sl
	if c.capN == 0 {
		hbSync(&w.hb)
		return
	}
	i := n % len(c.slots)
	c.pend[i] = append(c.pend[i], &w.hb)
}

// doSend performs the send effect; caller guarantees canSend.  me == nil: a timer tick deposited
// from scheduler context (the runtime's timer goroutine: no program-level edge).
func (c *Chan[T]) doSend(me *Task, v T) {
	if c.closed {
		panic("send on closed channel")
	}
	if w, _ := c.live(c.recvq, me); w != nil && len(c.buf) == 0 {
		// direct hand-off to a parked receiver; a buffered channel pretends to go through the buffer
		if me != nil {
			c.park(w, c.rx, c.slotSync(c.rx))
		}
		c.rx++
		c.sx = c.rx
		w.val, w.ok = v, true
		w.sel.done, w.sel.chosen = true, w.idx
		c.compact()
		return
	}
	if me != nil {
		c.slotSync(c.sx)
	}
	c.sx++
	c.buf = append(c.buf, v)
}

func (c *Chan[T]) doRecv(me *Task) (T, bool) {
	var zero T
	if len(c.buf) > 0 {
		v := c.buf[0]
		c.buf = c.buf[1:]
		sl := c.slotSync(c.rx)
		if w, _ := c.live(c.sendq, me); w != nil {
			// the buffer was full: the parked sender's item moves into the slot that has just been freed
			c.park(w, c.rx, sl)
			c.sx++
			c.buf = append(c.buf, w.val)
			w.sel.done, w.sel.chosen = true, w.idx
			c.compact()
		}
		c.rx++
		return v, true
	}
	if w, _ := c.live(c.sendq, me); w != nil {
		// the item comes straight from a sender that has announced its send (unbuffered rendezvous, or a
		// buffered send that has not been granted yet): the send is synchronised before this receive,
		// so the receiver acquires the clock the sender had at its send statement
		hbSync(&w.hb)
		w.slot = c.slotSync(c.rx)
		c.rx++
		c.sx = c.rx
		w.sel.done, w.sel.chosen = true, w.idx
		c.compact()
		return w.val, true
	}
	if c.closed {
		hbSync(&c.closeHB)
		return zero, false
	}
	panic("vsched: doRecv on non-ready channel")
}

func (c *Chan[T]) Send(v T) {
	if S == nil || S.abort {
		return
	}
	me := S.cur
	st := &selState{task: me}
	w := &waiter[T]{sel: st, val: v, send: true}
	if c != nil {
		hbSync(&w.hb)
		c.sendq = append(c.sendq, w)
	}
	PointOp("send", c.oid(), func() bool { return sendReady(st, c, me) })
	if S.abort {
		return
	}
	if st.done {
		if w.slot != nil {
			hbSync(w.slot)
		}
		return
	}
	st.done = true
	c.compact()
	c.doSend(me, v)
}

func (c *Chan[T]) Recv2() (T, bool) {
	var zero T
	if S == nil || S.abort {
		return zero, false
	}
	me := S.cur
	st := &selState{task: me}
	w := &waiter[T]{sel: st}
	if c != nil {
		hbSync(&w.hb)
		c.recvq = append(c.recvq, w)
	}
	PointOp("recv", c.oid(), func() bool { return recvReady(st, c, me) })
	if S.abort {
		return zero, false
	}
	if st.done {
		if w.slot != nil {
			hbSync(w.slot)
		}
		return w.val, w.ok
	}
	st.done = true
	c.compact()
	return c.doRecv(me)
}

func (c *Chan[T]) Recv() T { v, _ := c.Recv2(); return v }

func (c *Chan[T]) Len() int { return len(c.buf) }
func (c *Chan[T]) Cap() int { return c.capN }

func Close[T any](c *Chan[T]) {
	if S == nil || S.abort {
		return
	}
	PointOp("close", c.oid(), nil)
	if c.closed {
		panic("close of closed channel")
	}
	hbSync(&c.closeHB)
	c.closed = true
	// waiting receivers become enabled through canRecv; waiting senders will panic when run.
}

// ---- select ----

type SelCase interface {
	chanID() int
	ready(me *Task) bool
	register(st *selState, idx int)
	perform(me *Task)
	completedBy(st *selState, idx int) bool
}

type RecvC[T any] struct {
	ch *Chan[T]
	w  *waiter[T]
	V  T
	Ok bool
}

func RecvCase[T any](c *Chan[T]) *RecvC[T] { return &RecvC[T]{ch: c} }

func (r *RecvC[T]) ready(me *Task) bool { return r.ch.canRecv(me) }
func (r *RecvC[T]) register(st *selState, idx int) {
	if r.ch == nil {
		return
	}
	r.w = &waiter[T]{sel: st, idx: idx}
	hbSync(&r.w.hb)
	r.ch.recvq = append(r.ch.recvq, r.w)
}
func (r *RecvC[T]) perform(me *Task) {
	r.V, r.Ok = r.ch.doRecv(me)
	if !r.Ok {
		// a select that completes on a closed channel is the body of a spin loop: prefer others
		MarkYield()
	}
}
func (r *RecvC[T]) completedBy(st *selState, idx int) bool {
	if r.w != nil && st.done && st.chosen == idx {
		r.V, r.Ok = r.w.val, r.w.ok
		if r.w.slot != nil {
			hbSync(r.w.slot)
		}
		return true
	}
	return false
}

type SendC[T any] struct {
	ch *Chan[T]
	v  T
	w  *waiter[T]
}

func SendCase[T any](c *Chan[T], v T) *SendC[T] { return &SendC[T]{ch: c, v: v} }

func (s *SendC[T]) ready(me *Task) bool { return s.ch.canSend(me) }
func (s *SendC[T]) register(st *selState, idx int) {
	if s.ch == nil {
		return
	}
	s.w = &waiter[T]{sel: st, idx: idx, val: s.v, send: true}
	hbSync(&s.w.hb)
	s.ch.sendq = append(s.ch.sendq, s.w)
}
func (s *SendC[T]) perform(me *Task) { s.ch.doSend(me, s.v) }
func (s *SendC[T]) completedBy(st *selState, idx int) bool {
	if st.done && st.chosen == idx {
		if s.w != nil && s.w.slot != nil {
			hbSync(s.w.slot)
		}
		return true
	}
	return false
}

// Select returns the index of the chosen case, or -1 for default.
func Select(hasDefault bool, cases ...SelCase) int {
	if S == nil || S.abort {
		return -1
	}
	me := S.cur
	st := &selState{task: me}
	for i, c := range cases {
		c.register(st, i)
	}
	anyReady := func() bool { return selReady(st, cases, me) }
	if hasDefault {
		PointOp("select/default", selObj(cases), nil)
	} else {
		PointOp("select", selObj(cases), anyReady)
	}
	if S.abort {
		return -1
	}
	if st.done { // a partner completed one of our cases while we were parked
		for i, c := range cases {
			if c.completedBy(st, i) {
				return i
			}
		}
		panic("vsched: select completed by unknown case")
	}
	var ready []int
	for i, c := range cases {
		if c.ready(me) {
			ready = append(ready, i)
		}
	}
	// withdraw registrations
	st.done = true
	for _, c := range cases {
		switch x := c.(type) {
		case interface{ compactCh() }:
			x.compactCh()
		}
	}
	if len(ready) == 0 {
		if !hasDefault {
			panic("vsched: select granted with nothing ready")
		}
		return -1
	}
	k := 0
	if len(ready) > 1 {
		k = Choose(len(ready), 'c')
	}
	i := ready[k]
	cases[i].perform(me)
	st.chosen = i
	return i
}

func (r *RecvC[T]) compactCh() {
	if r.ch != nil {
		r.ch.compact()
	}
}
func (s *SendC[T]) compactCh() {
	if s.ch != nil {
		s.ch.compact()
	}
}

func sendReady[T any](st *selState, c *Chan[T], me *Task) bool { return st.done || c.canSend(me) }
func recvReady[T any](st *selState, c *Chan[T], me *Task) bool { return st.done || c.canRecv(me) }
func selReady(st *selState, cases []SelCase, me *Task) bool {
	if st.done {
		return true
	}
	for _, c := range cases {
		if c.ready(me) {
			return true
		}
	}
	return false
}

func (r *RecvC[T]) chanID() int { return r.ch.oid() }
func (s *SendC[T]) chanID() int { return s.ch.oid() }

// selObj folds the channel ids of a select into one number (for operation descriptions).
func selObj(cases []SelCase) int {
	h := 17
	for _, c := range cases {
		h = h*131 + c.chanID() + 2
	}
	return h
}
