package vsched

import (
	stdsync "sync"
)

type selState struct {
	done   bool
	chosen int
	task   *Task
}

type waiter[T any] struct {
	sel  *selState
	idx  int
	val  T
	ok   bool
	send bool
}

// Chan models a Go channel on the controlled scheduler.
type Chan[T any] struct {
	capN   int
	buf    []T
	closed bool
	recvq  []*waiter[T]
	sendq  []*waiter[T]
	id     int
	hb     stdsync.Mutex
}

func NewChan[T any](n int) *Chan[T] { return &Chan[T]{capN: n, id: NewObj()} }

func (c *Chan[T]) oid() int {
	if c == nil {
		return -1
	}
	return c.id
}

func (c *Chan[T]) live(q []*waiter[T], me *Task) (*waiter[T], int) {
	for i, w := range q {
		if !w.sel.done && w.sel.task != me {
			return w, i
		}
	}
	return nil, -1
}

func (c *Chan[T]) compact() {
	j := 0
	for _, w := range c.recvq {
		if !w.sel.done {
			c.recvq[j] = w
			j++
		}
	}
	c.recvq = c.recvq[:j]
	j = 0
	for _, w := range c.sendq {
		if !w.sel.done {
			c.sendq[j] = w
			j++
		}
	}
	c.sendq = c.sendq[:j]
}

func (c *Chan[T]) canSend(me *Task) bool {
	if c == nil {
		return false
	}
	if c.closed || len(c.buf) < c.capN {
		return true
	}
	w, _ := c.live(c.recvq, me)
	return w != nil
}

func (c *Chan[T]) canRecv(me *Task) bool {
	if c == nil {
		return false
	}
	if len(c.buf) > 0 || c.closed {
		return true
	}
	w, _ := c.live(c.sendq, me)
	return w != nil
}

// doSend performs the send effect; caller guarantees canSend.
func (c *Chan[T]) sync() {
	c.hb.Lock()
	c.hb.Unlock()
}

func (c *Chan[T]) doSend(me *Task, v T) {
	if me != nil {
		c.sync()
	}
	if c.closed {
		panic("send on closed channel")
	}
	if w, _ := c.live(c.recvq, me); w != nil && len(c.buf) == 0 {
		w.val, w.ok = v, true
		w.sel.done, w.sel.chosen = true, w.idx
		c.compact()
		return
	}
	c.buf = append(c.buf, v)
}

func (c *Chan[T]) doRecv(me *Task) (T, bool) {
	var zero T
	c.sync()
	if len(c.buf) > 0 {
		v := c.buf[0]
		c.buf = c.buf[1:]
		if w, _ := c.live(c.sendq, me); w != nil {
			c.buf = append(c.buf, w.val)
			w.sel.done, w.sel.chosen = true, w.idx
			c.compact()
		}
		return v, true
	}
	if w, _ := c.live(c.sendq, me); w != nil {
		w.sel.done, w.sel.chosen = true, w.idx
		c.compact()
		return w.val, true
	}
	if c.closed {
		return zero, false
	}
	panic("vsched: doRecv on non-ready channel")
}

func (c *Chan[T]) Send(v T) {
	if S == nil || S.abort {
		return
	}
	me := S.cur
	st := &selState{task: me}
	w := &waiter[T]{sel: st, val: v, send: true}
	if c != nil {
		c.sync()
		c.sendq = append(c.sendq, w)
	}
	PointOp("send", c.oid(), func() bool { return sendReady(st, c, me) })
	if S.abort {
		return
	}
	if st.done {
		c.sync()
		return
	}
	st.done = true
	c.compact()
	c.doSend(me, v)
}

func (c *Chan[T]) Recv2() (T, bool) {
	var zero T
	if S == nil || S.abort {
		return zero, false
	}
	me := S.cur
	st := &selState{task: me}
	w := &waiter[T]{sel: st}
	if c != nil {
		c.sync()
		c.recvq = append(c.recvq, w)
	}
	PointOp("recv", c.oid(), func() bool { return recvReady(st, c, me) })
	if S.abort {
		return zero, false
	}
	if st.done {
		c.sync()
		return w.val, w.ok
	}
	st.done = true
	c.compact()
	return c.doRecv(me)
}

func (c *Chan[T]) Recv() T { v, _ := c.Recv2(); return v }

func (c *Chan[T]) Len() int { return len(c.buf) }
func (c *Chan[T]) Cap() int { return c.capN }

func Close[T any](c *Chan[T]) {
	if S == nil || S.abort {
		return
	}
	PointOp("close", c.oid(), nil)
	if c.closed {
		panic("close of closed channel")
	}
	c.sync()
	c.closed = true
	// waiting receivers become enabled through canRecv; waiting senders will panic when run.
}

// ---- select ----

type SelCase interface {
	chanID() int
	ready(me *Task) bool
	register(st *selState, idx int)
	perform(me *Task)
	completedBy(st *selState, idx int) bool
}

type RecvC[T any] struct {
	ch *Chan[T]
	w  *waiter[T]
	V  T
	Ok bool
}

func RecvCase[T any](c *Chan[T]) *RecvC[T] { return &RecvC[T]{ch: c} }

func (r *RecvC[T]) ready(me *Task) bool { return r.ch.canRecv(me) }
func (r *RecvC[T]) register(st *selState, idx int) {
	if r.ch == nil {
		return
	}
	r.ch.sync()
	r.w = &waiter[T]{sel: st, idx: idx}
	r.ch.recvq = append(r.ch.recvq, r.w)
}
func (r *RecvC[T]) perform(me *Task) {
	r.V, r.Ok = r.ch.doRecv(me)
	if !r.Ok {
		// a select that completes on a closed channel is the body of a spin loop: prefer others
		MarkYield()
	}
}
func (r *RecvC[T]) completedBy(st *selState, idx int) bool {
	if r.w != nil && st.done && st.chosen == idx {
		r.V, r.Ok = r.w.val, r.w.ok
		r.ch.sync()
		return true
	}
	return false
}

type SendC[T any] struct {
	ch *Chan[T]
	v  T
	w  *waiter[T]
}

func SendCase[T any](c *Chan[T], v T) *SendC[T] { return &SendC[T]{ch: c, v: v} }

func (s *SendC[T]) ready(me *Task) bool { return s.ch.canSend(me) }
func (s *SendC[T]) register(st *selState, idx int) {
	if s.ch == nil {
		return
	}
	s.ch.sync()
	s.w = &waiter[T]{sel: st, idx: idx, val: s.v, send: true}
	s.ch.sendq = append(s.ch.sendq, s.w)
}
func (s *SendC[T]) perform(me *Task) { s.ch.doSend(me, s.v) }
func (s *SendC[T]) completedBy(st *selState, idx int) bool {
	if st.done && st.chosen == idx {
		s.ch.sync()
		return true
	}
	return false
}

// Select returns the index of the chosen case, or -1 for default.
func Select(hasDefault bool, cases ...SelCase) int {
	if S == nil || S.abort {
		return -1
	}
	me := S.cur
	st := &selState{task: me}
	for i, c := range cases {
		c.register(st, i)
	}
	anyReady := func() bool { return selReady(st, cases, me) }
	if hasDefault {
		PointOp("select/default", selObj(cases), nil)
	} else {
		PointOp("select", selObj(cases), anyReady)
	}
	if S.abort {
		return -1
	}
	if st.done { // a partner completed one of our cases while we were parked
		for i, c := range cases {
			if c.completedBy(st, i) {
				return i
			}
		}
		panic("vsched: select completed by unknown case")
	}
	var ready []int
	for i, c := range cases {
		if c.ready(me) {
			ready = append(ready, i)
		}
	}
	// withdraw registrations
	st.done = true
	for _, c := range cases {
		switch x := c.(type) {
		case interface{ compactCh() }:
			x.compactCh()
		}
	}
	if len(ready) == 0 {
		if !hasDefault {
			panic("vsched: select granted with nothing ready")
		}
		return -1
	}
	k := 0
	if len(ready) > 1 {
		k = Choose(len(ready), 'c')
	}
	i := ready[k]
	cases[i].perform(me)
	st.chosen = i
	return i
}

func (r *RecvC[T]) compactCh() {
	if r.ch != nil {
		r.ch.compact()
	}
}
func (s *SendC[T]) compactCh() {
	if s.ch != nil {
		s.ch.compact()
	}
}

func sendReady[T any](st *selState, c *Chan[T], me *Task) bool { return st.done || c.canSend(me) }
func recvReady[T any](st *selState, c *Chan[T], me *Task) bool { return st.done || c.canRecv(me) }
func selReady(st *selState, cases []SelCase, me *Task) bool {
	if st.done {
		return true
	}
	for _, c := range cases {
		if c.ready(me) {
			return true
		}
	}
	return false
}

func (r *RecvC[T]) chanID() int { return r.ch.oid() }
func (s *SendC[T]) chanID() int { return s.ch.oid() }

// selObj folds the channel ids of a select into one number (for operation descriptions).
func selObj(cases []SelCase) int {
	h := 17
	for _, c := range cases {
		h = h*131 + c.chanID() + 2
	}
	return h
}
