package context

import (
	"errors"
	stdtime "time"
	"vsched"
	"vsched/sync"
)

var Canceled = errors.New("context canceled")

type deadlineExceededError struct{}

func (deadlineExceededError) Error() string   { return "context deadline exceeded" }
func (deadlineExceededError) Timeout() bool   { return true }
func (deadlineExceededError) Temporary() bool { return true }

var DeadlineExceeded error = deadlineExceededError{}

type CancelFunc func()

type Context interface {
	Done() *vsched.Chan[struct{}]
	Err() error
	Deadline() (stdtime.Time, bool)
	Value(key any) any
}

type emptyCtx struct{}

func (emptyCtx) Done() *vsched.Chan[struct{}]   { return nil }
func (emptyCtx) Err() error                     { return nil }
func (emptyCtx) Deadline() (stdtime.Time, bool) { return stdtime.Time{}, false }
func (emptyCtx) Value(key any) any              { return nil }

func Background() Context { return emptyCtx{} }
func TODO() Context       { return emptyCtx{} }

type cancelCtx struct {
	parent   Context
	mu       sync.Mutex
	done     *vsched.Chan[struct{}]
	err      error
	children []*cancelCtx
	deadline stdtime.Time
	hasDL    bool
}

func (c *cancelCtx) Done() *vsched.Chan[struct{}]   { return c.done }
func (c *cancelCtx) Value(key any) any              { return c.parent.Value(key) }
func (c *cancelCtx) Deadline() (stdtime.Time, bool) {
	if c.hasDL {
		return c.deadline, true
	}
	return c.parent.Deadline()
}
func (c *cancelCtx) Err() error {
	c.mu.Lock()
	defer c.mu.Unlock()
	return c.err
}

func (c *cancelCtx) cancel() { c.cancelWith(Canceled) }

func (c *cancelCtx) cancelWith(err error) {
	c.mu.Lock()
	if c.err != nil {
		c.mu.Unlock()
		return
	}
	c.err = err
	vsched.Close(c.done)
	ch := c.children
	c.children = nil
	c.mu.Unlock()
	for _, k := range ch {
		k.cancelWith(err)
	}
}

type valueCtx struct {
	Context
	key, val any
}

func (v *valueCtx) Value(key any) any {
	if key == v.key {
		return v.val
	}
	return v.Context.Value(key)
}

func WithValue(parent Context, key, val any) Context { return &valueCtx{parent, key, val} }

// nearest enclosing cancellable context (value contexts are transparent)
func parentCancel(parent Context) *cancelCtx {
	for {
		switch p := parent.(type) {
		case *cancelCtx:
			return p
		case *valueCtx:
			parent = p.Context
		default:
			return nil
		}
	}
}

func WithTimeout(parent Context, d stdtime.Duration) (Context, CancelFunc) {
	c, cancel := WithCancel(parent)
	cc := c.(*cancelCtx)
	dl := vsched.Now().Add(d)
	if pd, ok := parent.Deadline(); ok && pd.Before(dl) {
		return c, cancel // the parent's earlier deadline governs
	}
	cc.deadline, cc.hasDL = dl, true
	if d <= 0 {
		cc.cancelWith(DeadlineExceeded)
		return c, cancel
	}
	stop := vsched.AfterFuncSpawn(d, func() { cc.cancelWith(DeadlineExceeded) }) // the runtime cancels from the timer's goroutine
	return c, func() { stop(); cancel() }
}

func WithDeadline(parent Context, t stdtime.Time) (Context, CancelFunc) {
	return WithTimeout(parent, t.Sub(vsched.Now()))
}

func WithCancel(parent Context) (Context, CancelFunc) {
	c := &cancelCtx{parent: parent, done: vsched.NewChan[struct{}](0)}
	if p := parentCancel(parent); p != nil {
		p.mu.Lock()
		if p.err != nil {
			err := p.err
			p.mu.Unlock()
			c.cancelWith(err)
		} else {
			p.children = append(p.children, c)
			p.mu.Unlock()
		}
	}
	return c, func() { c.cancel() }
}
