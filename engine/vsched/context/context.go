package context

import (
	"errors"
	stdtime "time"
	"vsched"
	"vsched/sync"
)

var Canceled = errors.New("context canceled")

type CancelFunc func()

type Context interface {
	Done() *vsched.Chan[struct{}]
	Err() error
	Deadline() (stdtime.Time, bool)
	Value(key any) any
}

type emptyCtx struct{}

func (emptyCtx) Done() *vsched.Chan[struct{}]   { return nil }
func (emptyCtx) Err() error                     { return nil }
func (emptyCtx) Deadline() (stdtime.Time, bool) { return stdtime.Time{}, false }
func (emptyCtx) Value(key any) any              { return nil }

func Background() Context { return emptyCtx{} }
func TODO() Context       { return emptyCtx{} }

type cancelCtx struct {
	parent   Context
	mu       sync.Mutex
	done     *vsched.Chan[struct{}]
	err      error
	children []*cancelCtx
}

func (c *cancelCtx) Done() *vsched.Chan[struct{}]   { return c.done }
func (c *cancelCtx) Deadline() (stdtime.Time, bool) { return stdtime.Time{}, false }
func (c *cancelCtx) Value(key any) any              { return c.parent.Value(key) }
func (c *cancelCtx) Err() error {
	c.mu.Lock()
	defer c.mu.Unlock()
	return c.err
}

func (c *cancelCtx) cancel() {
	c.mu.Lock()
	if c.err != nil {
		c.mu.Unlock()
		return
	}
	c.err = Canceled
	vsched.Close(c.done)
	ch := c.children
	c.children = nil
	c.mu.Unlock()
	for _, k := range ch {
		k.cancel()
	}
}

func WithCancel(parent Context) (Context, CancelFunc) {
	c := &cancelCtx{parent: parent, done: vsched.NewChan[struct{}](0)}
	if p, ok := parent.(*cancelCtx); ok {
		p.mu.Lock()
		if p.err != nil {
			p.mu.Unlock()
			c.cancel()
		} else {
			p.children = append(p.children, c)
			p.mu.Unlock()
		}
	}
	return c, func() { c.cancel() }
}
