module mutate

go 1.21
