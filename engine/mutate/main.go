// mutate: classical source mutation operators on one Go file (auxiliary tool for measuring what the
// checks detect; see DESIGN.md §5).
//
//	mutate -list <file.go>            prints one line per mutation site: <index> <line> <operator> <description>
//	mutate -apply <n> <file.go>       rewrites the file in place with mutation number n
//
// Operators: relational operator replacement (< <= > >= == !=), logical connective swap (&& ||),
// condition negation (if / for), integer literal +-1, + / - swap in binary expressions, statement
// deletion (expression statements, assignments with =, inc/dec, go, defer), "return early" is not used.
package main

import (
	"bytes"
	"fmt"
	"go/ast"
	"go/format"
	"go/parser"
	"go/token"
	"os"
	"strconv"
)

type site struct {
	line  int
	op    string
	desc  string
	apply func()
}

func main() {
	if len(os.Args) < 3 {
		fmt.Fprintln(os.Stderr, "usage: mutate -list file | mutate -apply n file")
		os.Exit(2)
	}
	mode := os.Args[1]
	path := os.Args[len(os.Args)-1]
	fset := token.NewFileSet()
	f, err := parser.ParseFile(fset, path, nil, parser.ParseComments)
	if err != nil {
		fmt.Fprintln(os.Stderr, err)
		os.Exit(1)
	}
	var sites []site
	add := func(pos token.Pos, op, desc string, fn func()) {
		sites = append(sites, site{fset.Position(pos).Line, op, desc, fn})
	}
	rel := map[token.Token][]token.Token{
		token.LSS: {token.LEQ}, token.LEQ: {token.LSS}, token.GTR: {token.GEQ}, token.GEQ: {token.GTR},
		token.EQL: {token.NEQ}, token.NEQ: {token.EQL},
	}
	var walkBlock func(list *[]ast.Stmt)
	walkBlock = func(list *[]ast.Stmt) {
		for i := range *list {
			i := i
			switch st := (*list)[i].(type) {
			case *ast.ExprStmt:
				if _, isCall := st.X.(*ast.CallExpr); isCall {
					add(st.Pos(), "delete-stmt", "call statement removed", func() { (*list)[i] = &ast.EmptyStmt{Semicolon: st.Pos()} })
				}
			case *ast.AssignStmt:
				if st.Tok == token.ASSIGN || st.Tok == token.ADD_ASSIGN || st.Tok == token.SUB_ASSIGN {
					add(st.Pos(), "delete-stmt", "assignment removed", func() { (*list)[i] = &ast.EmptyStmt{Semicolon: st.Pos()} })
				}
			case *ast.IncDecStmt:
				add(st.Pos(), "delete-stmt", "inc/dec removed", func() { (*list)[i] = &ast.EmptyStmt{Semicolon: st.Pos()} })
			case *ast.DeferStmt:
				add(st.Pos(), "delete-stmt", "defer removed", func() { (*list)[i] = &ast.EmptyStmt{Semicolon: st.Pos()} })
			case *ast.GoStmt:
				// leave goroutine starts alone: removing one is rarely subtle
			}
		}
	}
	ast.Inspect(f, func(n ast.Node) bool {
		switch x := n.(type) {
		case *ast.BlockStmt:
			walkBlock(&x.List)
		case *ast.CaseClause:
			walkBlock(&x.Body)
		case *ast.CommClause:
			walkBlock(&x.Body)
		case *ast.BinaryExpr:
			if alts, ok := rel[x.Op]; ok {
				for _, a := range alts {
					a, old := a, x.Op
					add(x.OpPos, "relational", fmt.Sprintf("%s -> %s", old, a), func() { x.Op = a })
				}
			}
			switch x.Op {
			case token.LAND:
				add(x.OpPos, "logical", "&& -> ||", func() { x.Op = token.LOR })
			case token.LOR:
				add(x.OpPos, "logical", "|| -> &&", func() { x.Op = token.LAND })
			case token.ADD:
				if !isStringy(x) {
					add(x.OpPos, "arithmetic", "+ -> -", func() { x.Op = token.SUB })
				}
			case token.SUB:
				add(x.OpPos, "arithmetic", "- -> +", func() { x.Op = token.ADD })
			}
		case *ast.IfStmt:
			if x.Cond != nil {
				add(x.Cond.Pos(), "negate-cond", "if condition negated", func() { x.Cond = &ast.UnaryExpr{Op: token.NOT, X: &ast.ParenExpr{X: x.Cond}} })
			}
		case *ast.BasicLit:
			if x.Kind == token.INT {
				if v, err := strconv.ParseInt(x.Value, 0, 64); err == nil && v >= 0 && v < 1000 {
					add(x.Pos(), "int-literal", fmt.Sprintf("%d -> %d", v, v+1), func() { x.Value = strconv.FormatInt(v+1, 10) })
					if v > 0 {
						add(x.Pos(), "int-literal", fmt.Sprintf("%d -> %d", v, v-1), func() { x.Value = strconv.FormatInt(v-1, 10) })
					}
				}
			}
		}
		return true
	})
	switch mode {
	case "-list":
		for i, s := range sites {
			fmt.Printf("%d %d %s %s\n", i, s.line, s.op, s.desc)
		}
	case "-apply":
		n, _ := strconv.Atoi(os.Args[2])
		if n < 0 || n >= len(sites) {
			fmt.Fprintln(os.Stderr, "no such mutation")
			os.Exit(1)
		}
		sites[n].apply()
		var buf bytes.Buffer
		if err := format.Node(&buf, fset, f); err != nil {
			fmt.Fprintln(os.Stderr, err)
			os.Exit(1)
		}
		if err := os.WriteFile(path, buf.Bytes(), 0o644); err != nil {
			fmt.Fprintln(os.Stderr, err)
			os.Exit(1)
		}
		fmt.Printf("%d %s %s\n", sites[n].line, sites[n].op, sites[n].desc)
	}
}

func isStringy(x *ast.BinaryExpr) bool {
	s := false
	ast.Inspect(x, func(n ast.Node) bool {
		if b, ok := n.(*ast.BasicLit); ok && (b.Kind == token.STRING || b.Kind == token.CHAR) {
			s = true
		}
		return true
	})
	return s
}
