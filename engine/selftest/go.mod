module selftest

go 1.21
