// Engine self-test: small programs in ordinary Go (sync, sync/atomic, channels, select, time,
// context) with answers known independently of the engine — brute-force enumeration of the
// interleavings of two straight-line threads, hand-derived outcome sets, a lost update and a
// lock-order deadlock that need exactly one preemption.  The file is passed through the same source
// rewriter as the library, then explored by the same explorer, and the explorer's outcome sets and
// execution counts are compared with those answers:
//
//   completeness  every interleaving with <= b preemptions is produced at bound b (b = 0,1,2,3 and
//                 unbounded), so a scheduler that silently drops alternatives is caught;
//   soundness     no execution at bound b needs more than b preemptions, none is produced twice at
//                 the same bound, and a replayed choice list reproduces its observation exactly;
//   semantics     channel, select, mutex, wait-group, context, timer and virtual-clock behaviour
//                 is that of the Go primitives (the outcome sets are those Go permits, no others).
//
// Exit status 0 and a JSON summary on stdout when everything agrees.
package main

import (
	"context"
	"encoding/json"
	"fmt"
	"os"
	"sort"
	"strings"
	"sync"
	"sync/atomic"
	"time"

	"vsched"
)

type test struct {
	name   string
	strict bool
	delay  bool
	body   func(obs *string) // *obs is the observation of one execution
	// expected distinct observations at bound b (nil = not checked); key -1 = unbounded (bound 64)
	want map[int][]string
	// wantDeadlock[b]: a deadlock is reported in some execution at bound b
	wantDeadlock map[int]bool
}

var failures = []string{}

func failf(f string, a ...any) { failures = append(failures, fmt.Sprintf(f, a...)) }

// ---- brute force: interleavings of two threads with k ops each and <= b preemptions ----

func brute(n, k, b int) []string {
	var out []string
	var rec func(s []byte, done []int, cur int, pre int)
	rec = func(s []byte, done []int, cur int, pre int) {
		all := true
		for _, d := range done {
			if d < k {
				all = false
			}
		}
		if all {
			out = append(out, string(s))
			return
		}
		for nx := 0; nx < n; nx++ {
			if done[nx] == k {
				continue
			}
			p := pre
			// switching away from the running thread costs a preemption iff it still has work
			if cur >= 0 && nx != cur && done[cur] < k {
				p++
			}
			if p > b {
				continue
			}
			nd := append([]int{}, done...)
			nd[nx]++
			rec(append(append([]byte{}, s...), byte('A'+nx)), nd, nx, p)
		}
	}
	rec(nil, make([]int, n), -1, 0)
	sort.Strings(out)
	return out
}

func interleave(n, k int) func(obs *string) {
	return func(obs *string) {
		var tr []byte
		var step int32
		var wg sync.WaitGroup
		for t := 0; t < n; t++ {
			id := byte('A' + t)
			wg.Add(1)
			go func() {
				defer wg.Done()
				for i := 0; i < k; i++ {
					atomic.AddInt32(&step, 1) // one scheduling point per operation
					tr = append(tr, id)       // performed in the same atomic step (no point in between)
				}
			}()
		}
		wg.Wait()
		*obs = string(tr)
	}
}

func tests() []test {
	var ts []test
	for _, nk := range [][2]int{{2, 2}, {2, 3}, {2, 4}, {3, 1}, {3, 2}} {
		n, k := nk[0], nk[1]
		w := map[int][]string{}
		for _, b := range []int{0, 1, 2, 3} {
			w[b] = brute(n, k, b)
		}
		w[-1] = brute(n, k, 1000)
		ts = append(ts, test{name: fmt.Sprintf("interleavings-%dthreads-%dops", n, k), body: interleave(n, k), want: w})
	}
	ts = append(ts, test{name: "lost-update", body: func(obs *string) {
		var x int32
		var wg sync.WaitGroup
		for i := 0; i < 2; i++ {
			wg.Add(1)
			go func() {
				defer wg.Done()
				v := atomic.LoadInt32(&x)
				atomic.StoreInt32(&x, v+1)
			}()
		}
		wg.Wait()
		*obs = fmt.Sprint(atomic.LoadInt32(&x))
	}, want: map[int][]string{0: {"2"}, 1: {"1", "2"}, 2: {"1", "2"}}})
	ts = append(ts, test{name: "mutex-protects-update", body: func(obs *string) {
		var x int32
		var mu sync.Mutex
		var wg sync.WaitGroup
		for i := 0; i < 3; i++ {
			wg.Add(1)
			go func() {
				defer wg.Done()
				mu.Lock()
				v := atomic.LoadInt32(&x)
				atomic.StoreInt32(&x, v+1)
				mu.Unlock()
			}()
		}
		wg.Wait()
		*obs = fmt.Sprint(atomic.LoadInt32(&x))
	}, want: map[int][]string{0: {"3"}, 2: {"3"}, 3: {"3"}}})
	ts = append(ts, test{name: "lock-order-deadlock", body: func(obs *string) {
		var a, b sync.Mutex
		done := make(chan struct{}, 2)
		go func() { a.Lock(); b.Lock(); b.Unlock(); a.Unlock(); done <- struct{}{} }()
		go func() { b.Lock(); a.Lock(); a.Unlock(); b.Unlock(); done <- struct{}{} }()
		<-done
		<-done
		*obs = "ok"
	}, wantDeadlock: map[int]bool{0: false, 1: true}})
	ts = append(ts, test{name: "unbuffered-rendezvous", body: func(obs *string) {
		c := make(chan int)
		r := make(chan string, 2)
		for _, n := range []string{"x", "y"} {
			n := n
			go func() { r <- fmt.Sprintf("%s%d", n, <-c) }()
		}
		c <- 1
		c <- 2
		got := []string{<-r, <-r}
		sort.Strings(got)
		*obs = strings.Join(got, ",")
	}, want: map[int][]string{-1: {"x1,y2", "x2,y1"}}})
	ts = append(ts, test{name: "buffered-fifo-and-close", body: func(obs *string) {
		c := make(chan int, 3)
		go func() {
			for i := 1; i <= 4; i++ {
				c <- i
			}
			close(c)
		}()
		var got []string
		for v := range c {
			got = append(got, fmt.Sprint(v))
		}
		_, ok := <-c
		*obs = strings.Join(got, "") + fmt.Sprint(ok)
	}, want: map[int][]string{-1: {"1234false"}}})
	ts = append(ts, test{name: "channel-semaphore-mutual-exclusion", body: func(obs *string) {
		// a buffered channel of capacity 1 used as a lock: never two holders, never more than one item
		sem := make(chan int, 1)
		var holders, maxHolders, maxLen int32
		var wg sync.WaitGroup
		for i := 0; i < 3; i++ {
			wg.Add(1)
			go func() {
				defer wg.Done()
				sem <- 1
				h := atomic.AddInt32(&holders, 1)
				if h > atomic.LoadInt32(&maxHolders) {
					atomic.StoreInt32(&maxHolders, h)
				}
				if l := int32(len(sem)); l > atomic.LoadInt32(&maxLen) {
					atomic.StoreInt32(&maxLen, l)
				}
				atomic.AddInt32(&holders, -1)
				<-sem
			}()
		}
		wg.Wait()
		*obs = fmt.Sprint("maxHolders=", maxHolders, " maxLen=", maxLen)
	}, want: map[int][]string{0: {"maxHolders=1 maxLen=1"}, 2: {"maxHolders=1 maxLen=1"}, 3: {"maxHolders=1 maxLen=1"}}})
	ts = append(ts, test{name: "select-both-ready", body: func(obs *string) {
		a, b := make(chan int, 1), make(chan int, 1)
		a <- 1
		b <- 2
		select {
		case v := <-a:
			*obs = fmt.Sprint("a", v)
		case v := <-b:
			*obs = fmt.Sprint("b", v)
		}
	}, want: map[int][]string{0: {"a1"}, 1: {"a1", "b2"}}})
	ts = append(ts, test{name: "select-default-and-nil", body: func(obs *string) {
		var n chan int
		c := make(chan int)
		select {
		case <-n:
			*obs = "nil"
		case <-c:
			*obs = "c"
		default:
			*obs = "default"
		}
	}, want: map[int][]string{-1: {"default"}}})
	ts = append(ts, test{name: "close-wakes-all", body: func(obs *string) {
		c := make(chan struct{})
		var n int32
		var wg sync.WaitGroup
		for i := 0; i < 3; i++ {
			wg.Add(1)
			go func() { defer wg.Done(); <-c; atomic.AddInt32(&n, 1) }()
		}
		close(c)
		wg.Wait()
		*obs = fmt.Sprint(atomic.LoadInt32(&n))
	}, want: map[int][]string{-1: {"3"}}})
	ts = append(ts, test{name: "virtual-clock", strict: true, body: func(obs *string) {
		t0 := time.Now()
		var order []string
		var mu sync.Mutex
		var wg sync.WaitGroup
		for _, d := range []int{300, 100, 200} {
			d := d
			wg.Add(1)
			go func() {
				defer wg.Done()
				time.Sleep(time.Duration(d) * time.Millisecond)
				mu.Lock()
				order = append(order, fmt.Sprint(d))
				mu.Unlock()
			}()
		}
		wg.Wait()
		*obs = strings.Join(order, "<") + "@" + time.Since(t0).String()
	}, want: map[int][]string{-1: {"100<200<300@300ms"}}})
	ts = append(ts, test{name: "timeout-vs-message-strict", strict: true, body: func(obs *string) {
		c := make(chan int, 1)
		go func() { time.Sleep(time.Second); c <- 1 }()
		select {
		case <-c:
			*obs = "msg@" + time.Since(vsched.Epoch).String()
		case <-time.After(2 * time.Second):
			*obs = "timeout"
		}
	}, want: map[int][]string{-1: {"msg@1s"}}})
	ts = append(ts, test{name: "same-instant-timers", strict: true, body: func(obs *string) {
		// two timers due at the same instant: both orders of their consequences are explored
		r := make(chan string, 2)
		time.AfterFunc(time.Second, func() { r <- "p" })
		time.AfterFunc(time.Second, func() { r <- "q" })
		*obs = <-r + <-r
	}, want: map[int][]string{0: {"pq", "qp"}, -1: {"pq", "qp"}}}) // which of two runnable tasks goes first is a free choice
	ts = append(ts, test{name: "ticker-and-stop", strict: true, body: func(obs *string) {
		tk := time.NewTicker(100 * time.Millisecond)
		n := 0
		for range tk.C {
			n++
			if n == 3 {
				tk.Stop()
				break
			}
		}
		tm := time.NewTimer(time.Hour)
		stopped := tm.Stop()
		*obs = fmt.Sprint(n, "@", time.Since(vsched.Epoch), " stop=", stopped)
	}, want: map[int][]string{-1: {"3@300ms stop=true"}}})
	ts = append(ts, test{name: "context-cancel-and-timeout", strict: true, body: func(obs *string) {
		ctx, cancel := context.WithCancel(context.Background())
		tctx, tcancel := context.WithTimeout(ctx, time.Second)
		defer tcancel()
		go func() { time.Sleep(500 * time.Millisecond); cancel() }()
		<-tctx.Done()
		*obs = fmt.Sprint(tctx.Err(), "@", time.Since(vsched.Epoch))
	}, want: map[int][]string{-1: {"context canceled@500ms"}}})
	ts = append(ts, test{name: "rwmutex-and-once", body: func(obs *string) {
		var rw sync.RWMutex
		var once sync.Once
		var inits, readers, maxReaders int32
		var wg sync.WaitGroup
		for i := 0; i < 2; i++ {
			wg.Add(1)
			go func() {
				defer wg.Done()
				once.Do(func() { atomic.AddInt32(&inits, 1) })
				rw.RLock()
				r := atomic.AddInt32(&readers, 1)
				for {
					m := atomic.LoadInt32(&maxReaders)
					if r <= m || atomic.CompareAndSwapInt32(&maxReaders, m, r) {
						break
					}
				}
				atomic.AddInt32(&readers, -1)
				rw.RUnlock()
			}()
		}
		wg.Add(1)
		go func() {
			defer wg.Done()
			rw.Lock()
			if atomic.LoadInt32(&readers) != 0 {
				atomic.StoreInt32(&inits, 99) // a writer overlapping a reader
			}
			rw.Unlock()
		}()
		wg.Wait()
		*obs = fmt.Sprint("inits=", atomic.LoadInt32(&inits), " maxReaders=", atomic.LoadInt32(&maxReaders))
	}, want: map[int][]string{0: {"inits=1 maxReaders=1"}, 2: {"inits=1 maxReaders=1", "inits=1 maxReaders=2"}}})
	return ts
}

type report struct {
	Name       string         `json:"name"`
	Bounds     map[string]int `json:"executions_by_bound"`
	Outcomes   map[string]int `json:"distinct_observations_by_bound"`
	Replays    int            `json:"replays_compared"`
	Duplicates int            `json:"duplicate_choice_lists"`
}

func runTest(t test) report {
	rep := report{Name: t.name, Bounds: map[string]int{}, Outcomes: map[string]int{}}
	bounds := map[int]bool{}
	for b := range t.want {
		bounds[b] = true
	}
	for b := range t.wantDeadlock {
		bounds[b] = true
	}
	var bl []int
	for b := range bounds {
		bl = append(bl, b)
	}
	sort.Ints(bl)
	for _, b := range bl {
		bound, label := b, fmt.Sprint(b)
		if b < 0 {
			bound, label = 64, "unbounded"
		}
		var obs string
		seen := map[string]bool{}
		lists := map[string]bool{}
		type rec struct {
			choices []int
			obs     string
		}
		var recs []rec
		deadlock := false
		vsched.DelayBounding = t.delay
		start := 0
		if b < 0 {
			start = bound // unbounded: one iteration
		}
		ex := &vsched.Explorer{Bound: bound, Start: start, Strict: t.strict, NShards: 1, MaxSteps: 100000,
			Body: func() { obs = ""; t.body(&obs) }}
		ex.Check = func(choices []int, cost int, r *vsched.Result) bool {
			if r.Panic != "" {
				failf("%s bound %s: panic %s", t.name, label, r.Panic)
			}
			if r.Capped {
				failf("%s bound %s: step cap", t.name, label)
			}
			if r.Deadlock {
				deadlock = true
			} else {
				seen[obs] = true
			}
			if cost == bound || b < 0 { // the last iteration's new executions, or every one when unbounded
				key := fmt.Sprint(choices)
				if lists[key] {
					rep.Duplicates++
				}
				lists[key] = true
			}
			if len(recs) < 400 {
				recs = append(recs, rec{append([]int{}, choices...), obs})
			}
			return true
		}
		ex.Run()
		if ex.BoundCompleted != bound {
			failf("%s bound %s: not completed (%s)", t.name, label, ex.Capped)
		}
		rep.Bounds[label] = ex.Execs
		rep.Outcomes[label] = len(seen)
		if want, ok := t.want[b]; ok {
			var got []string
			for o := range seen {
				got = append(got, o)
			}
			sort.Strings(got)
			w := append([]string{}, want...)
			sort.Strings(w)
			if strings.Join(got, "|") != strings.Join(w, "|") {
				failf("%s bound %s: observations %v, expected %v", t.name, label, got, w)
			}
		}
		if want, ok := t.wantDeadlock[b]; ok && want != deadlock {
			failf("%s bound %s: deadlock reported=%v, expected %v", t.name, label, deadlock, want)
		}
		// replay: the same choice list gives the same observation, twice
		for _, rc := range recs {
			for i := 0; i < 2; i++ {
				obs = ""
				r := vsched.Replay(rc.choices, t.strict, false, func() { obs = ""; t.body(&obs) })
				if !r.Deadlock && obs != rc.obs {
					failf("%s: replay of %v observed %q, exploration observed %q", t.name, rc.choices, obs, rc.obs)
				}
				if len(r.Points) != len(rc.choices) {
					failf("%s: replay of %v has %d points", t.name, rc.choices, len(r.Points))
				}
				rep.Replays++
			}
		}
	}
	if rep.Duplicates > 0 {
		failf("%s: %d choice lists explored twice within one bound iteration", t.name, rep.Duplicates)
	}
	return rep
}

func main() {
	var reps []report
	for _, t := range tests() {
		reps = append(reps, runTest(t))
	}
	out := map[string]any{"tests": reps, "failures": failures, "ok": len(failures) == 0}
	enc := json.NewEncoder(os.Stdout)
	enc.SetIndent("", " ")
	_ = enc.Encode(out)
	if len(failures) > 0 {
		os.Exit(1)
	}
}
