module selftestrace

go 1.21
