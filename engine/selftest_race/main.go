// Race-gate self-test: small programs whose verdict under the Go memory model is known.  Each one is
// explored (every schedule with at most two preemptions) in the race-gate build, i.e. with the
// scheduler's own hand-offs invisible to the race detector and every program-level synchronisation
// carried by a real primitive.  "clean" programs communicate correctly through one primitive each
// (unbuffered / buffered channel, the k-th receive before the (k+C)-th send, a parked receiver, a
// parked sender, close, WaitGroup, Mutex, RWMutex, Once, context cancellation, an atomic flag,
// select, time.AfterFunc, sync.Pool Put before Get): a report on any schedule would be a false alarm of the gate (an edge
// missing from its model).  "racy" programs omit the edge, or rely on an edge Go does not give (two
// senders on a buffered channel, two Done calls of a WaitGroup, a receiver's earlier writes and the
// sender of a buffered hand-off, the task that happens to fire a timer): no report on any schedule
// would mean the gate hides races (an edge too many).
//
// usage: selftestrace <program> ; the caller reads the race log (GORACE=log_path=...).
package main

import (
	"context"
	"fmt"
	"os"
	"sync"
	"sync/atomic"
	"time"

	"vsched"
)

type box struct{ x, y int }

var programs = map[string]struct {
	racy bool
	body func()
}{
	"clean/unbuffered-send-to-recv": {false, func() {
		b := &box{}
		ch := make(chan int)
		go func() { b.x = 1; ch <- 1 }()
		<-ch
		_ = b.x
	}},
	"clean/unbuffered-recv-to-send-completion": {false, func() {
		// the receive is synchronised before the completion of the send on an unbuffered channel
		b := &box{}
		ch := make(chan int)
		done := make(chan int)
		go func() { b.y = 1; <-ch; done <- 1 }()
		ch <- 1
		_ = b.y
		<-done
	}},
	"clean/buffered-send-to-recv": {false, func() {
		b := &box{}
		ch := make(chan int, 4)
		go func() { b.x = 1; ch <- 1 }()
		<-ch
		_ = b.x
	}},
	"clean/buffered-parked-receiver": {false, func() {
		b := &box{}
		ch := make(chan []byte, 4)
		done := make(chan int)
		go func() { <-ch; _ = b.x; done <- 1 }()
		time.Sleep(time.Millisecond) // the receiver is parked by now
		b.x = 1
		ch <- []byte("a")
		<-done
	}},
	"clean/buffered-parked-sender": {false, func() {
		b := &box{}
		ch := make(chan []byte, 1)
		ch <- []byte("first")
		done := make(chan int)
		go func() { b.x = 1; ch <- []byte("second"); done <- 1 }() // parks: the buffer is full
		time.Sleep(time.Millisecond)
		<-ch
		<-ch
		_ = b.x
		<-done
	}},
	"clean/semaphore-kth-recv-before-k+Cth-send": {false, func() {
		b := &box{}
		sem := make(chan int, 1)
		var wg sync.WaitGroup
		for i := 0; i < 2; i++ {
			wg.Add(1)
			go func() { defer wg.Done(); sem <- 1; b.x++; <-sem }()
		}
		wg.Wait()
	}},
	"clean/close-to-recv": {false, func() {
		b := &box{}
		ch := make(chan struct{})
		go func() { b.x = 1; close(ch) }()
		<-ch
		_ = b.x
	}},
	"clean/waitgroup": {false, func() {
		b := &box{}
		var wg sync.WaitGroup
		wg.Add(2)
		go func() { b.x = 1; wg.Done() }()
		go func() { b.y = 1; wg.Done() }()
		wg.Wait()
		_ = b.x + b.y
	}},
	"clean/mutex": {false, func() {
		b := &box{}
		var mu sync.Mutex
		var wg sync.WaitGroup
		for i := 0; i < 2; i++ {
			wg.Add(1)
			go func() { defer wg.Done(); mu.Lock(); b.x++; mu.Unlock() }()
		}
		wg.Wait()
	}},
	"clean/rwmutex": {false, func() {
		b := &box{}
		var mu sync.RWMutex
		var wg sync.WaitGroup
		wg.Add(3)
		go func() { defer wg.Done(); mu.Lock(); b.x++; mu.Unlock() }()
		go func() { defer wg.Done(); mu.RLock(); _ = b.x; mu.RUnlock() }()
		go func() { defer wg.Done(); mu.RLock(); _ = b.x; mu.RUnlock() }()
		wg.Wait()
	}},
	"clean/once": {false, func() {
		b := &box{}
		var once sync.Once
		var wg sync.WaitGroup
		for i := 0; i < 2; i++ {
			wg.Add(1)
			go func() { defer wg.Done(); once.Do(func() { b.x = 1 }); _ = b.x }()
		}
		wg.Wait()
	}},
	"clean/context-cancel": {false, func() {
		b := &box{}
		ctx, cancel := context.WithCancel(context.Background())
		go func() { b.x = 1; cancel() }()
		<-ctx.Done()
		_ = b.x
	}},
	"clean/atomic-flag": {false, func() {
		b := &box{}
		var f int32
		go func() { b.x = 1; atomic.StoreInt32(&f, 1) }()
		for atomic.LoadInt32(&f) == 0 {
			time.Sleep(time.Millisecond)
		}
		_ = b.x
	}},
	"clean/select-send": {false, func() {
		b := &box{}
		ch := make(chan int, 1)
		quit := make(chan struct{})
		go func() {
			b.x = 1
			select {
			case ch <- 1:
			case <-quit:
			}
		}()
		select {
		case <-ch:
			_ = b.x
		case <-time.After(time.Second):
		}
	}},
	"clean/afterfunc-after-arming": {false, func() {
		b := &box{}
		done := make(chan int)
		b.x = 1
		time.AfterFunc(time.Millisecond, func() { _ = b.x; done <- 1 })
		<-done
	}},
	"clean/go-statement": {false, func() {
		b := &box{}
		done := make(chan int)
		b.x = 1
		go func() { _ = b.x; done <- 1 }()
		<-done
	}},
	"clean/pool-put-to-get": {false, func() {
		var pool sync.Pool
		done := make(chan int, 2)
		go func() { b := &box{}; b.x = 1; pool.Put(b); done <- 1 }()
		go func() {
			time.Sleep(time.Millisecond)
			if b, ok := pool.Get().(*box); ok {
				_ = b.x
			}
			done <- 1
		}()
		<-done
		<-done
	}},
	"racy/object-touched-after-pool-put": {true, func() {
		var pool sync.Pool
		done := make(chan int, 2)
		go func() { b := &box{}; pool.Put(b); b.x = 1; done <- 1 }() // still writes to what it has given away
		go func() {
			time.Sleep(time.Millisecond)
			if b, ok := pool.Get().(*box); ok {
				b.x = 2
			}
			done <- 1
		}()
		<-done
		<-done
	}},
	"racy/no-synchronisation": {true, func() {
		b := &box{}
		var wg sync.WaitGroup
		for i := 0; i < 2; i++ {
			wg.Add(1)
			go func() { defer wg.Done(); b.x++ }()
		}
		wg.Wait()
	}},
	"racy/write-after-unlock": {true, func() {
		b := &box{}
		var mu sync.Mutex
		done := make(chan int, 2)
		go func() { mu.Lock(); mu.Unlock(); b.x = 1; done <- 1 }()
		go func() { time.Sleep(time.Millisecond); mu.Lock(); b.x = 2; mu.Unlock(); done <- 1 }()
		<-done
		<-done
	}},
	"racy/two-senders-on-a-buffered-channel": {true, func() {
		// both send into a roomy buffer (different slots): a send is not ordered with another send
		b := &box{}
		ch := make(chan []byte, 16)
		done := make(chan int, 2)
		go func() { b.x = 1; ch <- []byte("a"); done <- 1 }()
		go func() { time.Sleep(time.Millisecond); ch <- []byte("b"); b.x = 2; done <- 1 }()
		<-done
		<-done
	}},
	"racy/buffered-hand-off-does-not-order-the-receivers-past-with-the-sender": {true, func() {
		b := &box{}
		ch := make(chan []byte, 16)
		done := make(chan int, 2)
		go func() { b.x = 1; <-ch; done <- 1 }() // writes, then parks on the receive
		go func() { time.Sleep(time.Millisecond); ch <- []byte("a"); b.x = 2; done <- 1 }()
		<-done
		<-done
	}},
	"racy/two-done-calls-are-not-ordered": {true, func() {
		b := &box{}
		var wg sync.WaitGroup
		wg.Add(2)
		go func() { b.x = 1; wg.Done() }()
		go func() { time.Sleep(time.Millisecond); wg.Done(); b.x = 2 }()
		wg.Wait()
		time.Sleep(10 * time.Millisecond)
	}},
	"racy/afterfunc-is-ordered-after-its-arming-only": {true, func() {
		// the callback fires while another task (not the one that armed it) has just written
		b := &box{}
		done := make(chan int, 2)
		time.AfterFunc(2*time.Millisecond, func() { b.x = 2; done <- 1 })
		go func() { time.Sleep(time.Millisecond); b.x = 1; time.Sleep(5 * time.Millisecond); done <- 1 }()
		<-done
		<-done
	}},
	"racy/reader-under-rlock-writer-without": {true, func() {
		b := &box{}
		var mu sync.RWMutex
		done := make(chan int, 2)
		go func() { mu.RLock(); _ = b.x; mu.RUnlock(); done <- 1 }()
		go func() { b.x = 1; done <- 1 }()
		<-done
		<-done
	}},
}

func main() {
	if len(os.Args) < 2 {
		for n := range programs {
			fmt.Println(n)
		}
		return
	}
	if !vsched.RaceGate {
		fmt.Fprintln(os.Stderr, "not a race-gate build")
		os.Exit(3)
	}
	p, ok := programs[os.Args[1]]
	if !ok {
		fmt.Fprintln(os.Stderr, "unknown program")
		os.Exit(3)
	}
	ex := &vsched.Explorer{Bound: 2, Strict: true, NShards: 1, MaxSteps: 100000, Body: p.body}
	bad := ""
	ex.Check = func(choices []int, cost int, r *vsched.Result) bool {
		if r.Panic != "" || r.Deadlock || r.Capped {
			bad = fmt.Sprintf("panic=%q deadlock=%v capped=%v", r.Panic, r.Deadlock, r.Capped)
			return false
		}
		return true
	}
	ex.Run()
	if bad != "" {
		fmt.Println("BAD", bad)
		os.Exit(4)
	}
	fmt.Printf("executions=%d racy=%v\n", ex.Execs, p.racy)
}
