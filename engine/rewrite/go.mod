module rewrite

go 1.22.0

toolchain go1.23.5

require golang.org/x/tools v0.29.0
