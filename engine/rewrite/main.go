// rewrite: source-to-source transformer: Go concurrency syntax -> vsched calls (DESIGN.md §2.1a).
// usage: rewrite <srcdir> <dstdir>            rewrite a source tree (skips .git, examples, cmd, generator, *_test.go)
//        rewrite -norace <srcdir> <dstdir>    copy a tree, prefixing every top-level func with //go:norace
package main

import (
	"bytes"
	"fmt"
	"go/ast"
	"go/format"
	"go/parser"
	"go/token"
	"io/fs"
	"os"
	"path/filepath"
	"strconv"
	"strings"

	"golang.org/x/tools/go/ast/astutil"
)

const vs = "vsched"

var importMap = map[string]string{
	"sync":                       vs + "/sync",
	"sync/atomic":                vs + "/atomic",
	"context":                    vs + "/context",
	"time":                       vs + "/time",
	"golang.org/x/sync/errgroup": vs + "/errgroup",
}

func main() {
	if len(os.Args) == 4 && os.Args[1] == "-norace" {
		if err := noraceTree(os.Args[2], os.Args[3]); err != nil {
			fmt.Fprintln(os.Stderr, err)
			os.Exit(1)
		}
		return
	}
	if len(os.Args) >= 4 && os.Args[1] == "-fixlen" {
		if err := fixLen(os.Args[2], os.Args[3:]); err != nil {
			fmt.Fprintln(os.Stderr, err)
			os.Exit(1)
		}
		return
	}
	if len(os.Args) >= 4 && os.Args[1] == "-fixrange" {
		if err := fixRange(os.Args[2], os.Args[3:]); err != nil {
			fmt.Fprintln(os.Stderr, err)
			os.Exit(1)
		}
		return
	}
	if len(os.Args) != 3 {
		fmt.Fprintln(os.Stderr, "usage: rewrite [-norace] <src> <dst> | rewrite -fixrange <rewritten file> <line>...")
		os.Exit(2)
	}
	src, dst := os.Args[1], os.Args[2]
	err := filepath.WalkDir(src, func(p string, d fs.DirEntry, err error) error {
		if err != nil {
			return err
		}
		rel, _ := filepath.Rel(src, p)
		if d.IsDir() {
			if d.Name() == ".git" || rel == "examples" || rel == "cmd" || rel == "generator" {
				return filepath.SkipDir
			}
			return os.MkdirAll(filepath.Join(dst, rel), 0o755)
		}
		out := filepath.Join(dst, rel)
		if !strings.HasSuffix(p, ".go") || strings.HasSuffix(p, "_test.go") {
			if strings.HasSuffix(p, "_test.go") {
				return nil
			}
			b, err := os.ReadFile(p)
			if err != nil {
				return err
			}
			return os.WriteFile(out, b, 0o644)
		}
		b, err := rewriteFile(p)
		if err != nil {
			return fmt.Errorf("%s: %w", p, err)
		}
		return os.WriteFile(out, b, 0o644)
	})
	if err != nil {
		fmt.Fprintln(os.Stderr, err)
		os.Exit(1)
	}
}

func sel(x, name string) ast.Expr {
	return &ast.SelectorExpr{X: ast.NewIdent(x), Sel: ast.NewIdent(name)}
}

func chanOf(elem ast.Expr) ast.Expr {
	return &ast.StarExpr{X: &ast.IndexExpr{X: sel("vsched", "Chan"), Index: elem}}
}

func isArrow(e ast.Expr) (*ast.UnaryExpr, bool) {
	for {
		if p, ok := e.(*ast.ParenExpr); ok {
			e = p.X
			continue
		}
		break
	}
	u, ok := e.(*ast.UnaryExpr)
	return u, ok && u.Op == token.ARROW
}

func call(fun ast.Expr, args ...ast.Expr) *ast.CallExpr { return &ast.CallExpr{Fun: fun, Args: args} }

var counter int
var genRecv = map[*ast.CallExpr]bool{}

func rewriteFile(path string) ([]byte, error) {
	fset := token.NewFileSet()
	f, err := parser.ParseFile(fset, path, nil, parser.ParseComments)
	if err != nil {
		return nil, err
	}
	used := false
	// imports
	for _, im := range f.Imports {
		p, _ := strconv.Unquote(im.Path.Value)
		if np, ok := importMap[p]; ok {
			im.Path.Value = strconv.Quote(np)
			im.EndPos = 0
		}
	}
	var rw func(n ast.Node) ast.Node
	var pre, post func(c *astutil.Cursor) bool
	pre = func(c *astutil.Cursor) bool {
		switch n := c.Node().(type) {
		case *ast.CallExpr:
			if id, ok := n.Fun.(*ast.Ident); ok && id.Name == "make" && len(n.Args) >= 1 {
				if ct, ok := n.Args[0].(*ast.ChanType); ok {
					size := ast.Expr(&ast.BasicLit{Kind: token.INT, Value: "0"})
					if len(n.Args) > 1 {
						size = n.Args[1]
					}
					used = true
					c.Replace(call(&ast.IndexExpr{X: sel("vsched", "NewChan"), Index: rw(ct.Value).(ast.Expr)}, rw(size).(ast.Expr)))
					return false
				}
			}
			if id, ok := n.Fun.(*ast.Ident); ok && id.Name == "close" && len(n.Args) == 1 {
				used = true
				n.Fun = sel("vsched", "Close")
			}
		case *ast.SelectStmt:
			used = true
			c.Replace(rewriteSelect(n, rw))
			return false
		}
		return true
	}
	post = func(c *astutil.Cursor) bool {
		switch n := c.Node().(type) {
		case *ast.ChanType:
			used = true
			c.Replace(chanOf(n.Value))
		case *ast.SendStmt:
			c.Replace(&ast.ExprStmt{X: call(&ast.SelectorExpr{X: n.Chan, Sel: ast.NewIdent("Send")}, n.Value)})
		case *ast.AssignStmt:
			if len(n.Lhs) == 2 && len(n.Rhs) == 1 {
				if ce, ok := n.Rhs[0].(*ast.CallExpr); ok && genRecv[ce] {
					ce.Fun.(*ast.SelectorExpr).Sel = ast.NewIdent("Recv2")
				}
			}
		case *ast.UnaryExpr:
			if n.Op == token.ARROW {
				ce := call(&ast.SelectorExpr{X: n.X, Sel: ast.NewIdent("Recv")})
				genRecv[ce] = true
				c.Replace(ce)
			}
		case *ast.GoStmt:
			used = true
			var fn ast.Expr
			if fl, ok := n.Call.Fun.(*ast.FuncLit); ok && len(n.Call.Args) == 0 {
				fn = fl
			} else {
				fn = &ast.FuncLit{
					Type: &ast.FuncType{Params: &ast.FieldList{}},
					Body: &ast.BlockStmt{List: []ast.Stmt{&ast.ExprStmt{X: n.Call}}},
				}
			}
			c.Replace(&ast.ExprStmt{X: call(sel("vsched", "Go"), fn)})
		case *ast.RangeStmt:
			// range over channel would need type info; flag loudly if the range expr is a call to a known chan accessor
			if ce, ok := n.X.(*ast.CallExpr); ok {
				if se, ok := ce.Fun.(*ast.SelectorExpr); ok && (se.Sel.Name == "Reader" || se.Sel.Name == "Outgoing" || se.Sel.Name == "Done") {
					_ = path // handled by the -fixrange pass after the first compile
				}
			}
		}
		return true
	}
	rw = func(n ast.Node) ast.Node { return astutil.Apply(n, pre, post) }
	rw(f)
	if used {
		astutil.AddImport(fset, f, vs)
	}
	var buf bytes.Buffer
	if err := format.Node(&buf, fset, f); err != nil {
		return nil, err
	}
	return buf.Bytes(), nil
}

// rewriteSelect turns a select statement into: { c0 := RecvCase(..); ...; switch vsched.Select(def, c0..) { case 0: ... } }
func rewriteSelect(s *ast.SelectStmt, rw func(ast.Node) ast.Node) ast.Stmt {
	rx := func(e ast.Expr) ast.Expr { return rw(e).(ast.Expr) }
	rb := func(b []ast.Stmt) []ast.Stmt {
		blk := rw(&ast.BlockStmt{List: b}).(*ast.BlockStmt)
		return blk.List
	}
	counter++
	blk := &ast.BlockStmt{}
	sw := &ast.SwitchStmt{Body: &ast.BlockStmt{}}
	var caseIDs []ast.Expr
	hasDefault := "false"
	idx := 0
	for _, cl := range s.Body.List {
		cc := cl.(*ast.CommClause)
		if cc.Comm == nil {
			hasDefault = "true"
			sw.Body.List = append(sw.Body.List, &ast.CaseClause{
				List: nil,
				Body: rb(cc.Body),
			})
			continue
		}
		name := fmt.Sprintf("vsc%d_%d", counter, idx)
		id := ast.NewIdent(name)
		var mk ast.Expr
		var pre []ast.Stmt
		switch st := cc.Comm.(type) {
		case *ast.SendStmt:
			mk = call(sel("vsched", "SendCase"), rx(st.Chan), rx(st.Value))
		case *ast.ExprStmt:
			u, ok := isArrow(st.X)
			if !ok {
				panic("unexpected select comm expr")
			}
			mk = call(sel("vsched", "RecvCase"), rx(u.X))
		case *ast.AssignStmt:
			u, ok := isArrow(st.Rhs[0])
			if !ok {
				panic("unexpected select comm assign")
			}
			mk = call(sel("vsched", "RecvCase"), rx(u.X))
			var lhs, rhs []ast.Expr
			fields := []string{"V", "Ok"}
			for i, l := range st.Lhs {
				if li, ok := l.(*ast.Ident); ok && li.Name == "_" {
					continue
				}
				lhs = append(lhs, l)
				rhs = append(rhs, &ast.SelectorExpr{X: ast.NewIdent(name), Sel: ast.NewIdent(fields[i])})
			}
			if len(lhs) > 0 {
				pre = append(pre, &ast.AssignStmt{Lhs: lhs, Tok: st.Tok, Rhs: rhs})
			}
		default:
			panic("unexpected select comm")
		}
		blk.List = append(blk.List, &ast.AssignStmt{Lhs: []ast.Expr{id}, Tok: token.DEFINE, Rhs: []ast.Expr{mk}})
		caseIDs = append(caseIDs, ast.NewIdent(name))
		sw.Body.List = append(sw.Body.List, &ast.CaseClause{
			List: []ast.Expr{&ast.BasicLit{Kind: token.INT, Value: strconv.Itoa(idx)}},
			Body: append(pre, rb(cc.Body)...),
		})
		idx++
	}
	if hasDefault == "false" {
		sw.Body.List = append(sw.Body.List, &ast.CaseClause{
			Body: []ast.Stmt{&ast.ExprStmt{X: call(ast.NewIdent("panic"), &ast.BasicLit{Kind: token.STRING, Value: `"vsched: bad select index"`})}},
		})
	}
	args := append([]ast.Expr{ast.NewIdent(hasDefault)}, caseIDs...)
	sw.Tag = call(sel("vsched", "Select"), args...)
	blk.List = append(blk.List, sw)
	return blk
}

// noraceTree copies a Go source tree and marks every top-level function //go:norace.
// fixRange is the type-directed second pass for "for v := range ch": the rewriter works without type
// information, so a range over a channel is only discovered when the compiler rejects the rewritten
// file ("cannot range over x (variable of type *vsched.Chan[T])").  The statements at the reported
// lines become
//
//	for rc := X; ; { v, ok := rc.Recv2(); if !ok { break }; body }
//
// (one statement, so a label stays attached; X is evaluated once; continue re-enters at the receive).
// The loop variable is per iteration here, whereas Go < 1.22 shares it across iterations: a closure
// capturing it is the one construct whose behaviour differs.
func fixRange(path string, lines []string) error {
	want := map[int]bool{}
	for _, l := range lines {
		n, err := strconv.Atoi(l)
		if err != nil {
			return err
		}
		want[n] = true
	}
	fset := token.NewFileSet()
	f, err := parser.ParseFile(fset, path, nil, parser.ParseComments)
	if err != nil {
		return err
	}
	done := 0
	var bad error
	astutil.Apply(f, nil, func(c *astutil.Cursor) bool {
		n, ok := c.Node().(*ast.RangeStmt)
		if !ok || !want[fset.Position(n.X.Pos()).Line] {
			return true
		}
		if n.Value != nil || (n.Key != nil && n.Tok != token.DEFINE) {
			bad = fmt.Errorf("%s:%d: unsupported form of range over channel", path, fset.Position(n.Pos()).Line)
			return true
		}
		counter++
		rc, okv := ast.NewIdent(fmt.Sprintf("rc__%d", counter)), ast.NewIdent(fmt.Sprintf("ok__%d", counter))
		key := ast.Expr(ast.NewIdent("_"))
		if n.Key != nil {
			key = n.Key
		}
		body := []ast.Stmt{
			&ast.AssignStmt{Lhs: []ast.Expr{key, okv}, Tok: token.DEFINE, Rhs: []ast.Expr{call(&ast.SelectorExpr{X: rc, Sel: ast.NewIdent("Recv2")})}},
			&ast.IfStmt{Cond: &ast.UnaryExpr{Op: token.NOT, X: okv}, Body: &ast.BlockStmt{List: []ast.Stmt{&ast.BranchStmt{Tok: token.BREAK}}}},
		}
		body = append(body, n.Body.List...)
		c.Replace(&ast.ForStmt{
			Init: &ast.AssignStmt{Lhs: []ast.Expr{rc}, Tok: token.DEFINE, Rhs: []ast.Expr{n.X}},
			Body: &ast.BlockStmt{List: body},
		})
		done++
		return true
	})
	if bad != nil {
		return bad
	}
	if done == 0 {
		return fmt.Errorf("%s: no range statement at lines %v", path, lines)
	}
	var buf bytes.Buffer
	if err := format.Node(&buf, fset, f); err != nil {
		return err
	}
	return os.WriteFile(path, buf.Bytes(), 0o644)
}

// fixLen: len(ch) / cap(ch) on a channel, discovered like range over a channel by the compiler's
// complaint about the rewritten file; positions are line:col of the argument.
func fixLen(path string, poss []string) error {
	want := map[string]bool{}
	for _, p := range poss {
		want[p] = true
	}
	fset := token.NewFileSet()
	f, err := parser.ParseFile(fset, path, nil, parser.ParseComments)
	if err != nil {
		return err
	}
	done := 0
	astutil.Apply(f, nil, func(c *astutil.Cursor) bool {
		n, ok := c.Node().(*ast.CallExpr)
		if !ok || len(n.Args) != 1 {
			return true
		}
		id, ok := n.Fun.(*ast.Ident)
		if !ok || (id.Name != "len" && id.Name != "cap") {
			return true
		}
		pos := fset.Position(n.Args[0].Pos())
		if !want[fmt.Sprintf("%d:%d", pos.Line, pos.Column)] {
			return true
		}
		m := "Len"
		if id.Name == "cap" {
			m = "Cap"
		}
		c.Replace(call(&ast.SelectorExpr{X: n.Args[0], Sel: ast.NewIdent(m)}))
		done++
		return true
	})
	if done == 0 {
		return fmt.Errorf("%s: no len/cap call at %v", path, poss)
	}
	var buf bytes.Buffer
	if err := format.Node(&buf, fset, f); err != nil {
		return err
	}
	return os.WriteFile(path, buf.Bytes(), 0o644)
}

func noraceTree(src, dst string) error {
	return filepath.WalkDir(src, func(p string, d fs.DirEntry, err error) error {
		if err != nil {
			return err
		}
		rel, _ := filepath.Rel(src, p)
		if d.IsDir() {
			return os.MkdirAll(filepath.Join(dst, rel), 0o755)
		}
		b, err := os.ReadFile(p)
		if err != nil {
			return err
		}
		if strings.HasSuffix(p, ".go") {
			lines := strings.Split(string(b), "\n")
			var out []string
			for _, l := range lines {
				if strings.HasPrefix(l, "func ") {
					out = append(out, "//go:norace")
				}
				out = append(out, l)
			}
			b = []byte(strings.Join(out, "\n"))
		}
		return os.WriteFile(filepath.Join(dst, rel), b, 0o644)
	})
}
