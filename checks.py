"""Per-property configuration of vcheck: engine, worker arguments per tier, claimed level,
non-triviality rule and assumptions (copied into every evidence file)."""

CODEC_ASSUME = [
    "bounded-exhaustive: only templates up to the stated node budget / depth 3, the stated tag pool, value alphabets and value-deviation bound are covered",
    "trusted: Go compiler/runtime, strconv, time formatting, bytes; the 150-line reference codec in harness/codec/ref.go",
    "values never contain SOH (0x01), as the property statements require",
]

CHECKS = {
    "C01": dict(
        level="exploration",
        phases=[dict(engine="codec", args=dict(quick=["-budget", "6", "-valdev", "1", "-entries", "2"],
                                               thorough=["-budget", "7", "-valdev", "2", "-entries", "3"])),
                dict(engine="sess", args=[])],
        deadline=dict(quick=240, thorough=1800),
        rule="every message of the enumerated space (template shape × type order × framing-tag set × header/trailer form × population × value route × value deviation; BodyLength sweep 0..1100 payload bytes; checksum-residue sweep; 11 generated fix44 types) is serialised by the library and checked against the byte-level oracle. A case is non-trivial-distinct by the key (typed body shape, body population, header/trailer population, digit count of BodyLength, checksum class {<10,<100,>=100}).",
        assumptions=CODEC_ASSUME + ["second phase (sess engine, schedule exploration): two sessions on independent handlers send messages of different lengths while two application tasks call ToBytes on objects of their own; every schedule within preemption bound 1 (thorough 2) over the library's synchronisation operations (incl. sync.Pool Get/Put and the instant after a Put); every frame on either wire and every returned slice is well-formed, carries its own identifier, and the returned slices read the same at the end"],
    ),
    "C17": dict(
        engine="codec", level="exploration",
        args=dict(quick=["-budget", "5", "-valdev", "1", "-entries", "2"],
                  thorough=["-budget", "7", "-valdev", "2", "-entries", "3"]),
        deadline=dict(quick=110, thorough=1500),
        rule="every message of the enumerated space (as C01, with values entering through constructor, Set and FromBytes, and with populated trailer fields) is serialised and its field list between MsgType and CheckSum compared with the reference field list of the population. Non-trivial-distinct key: (typed body shape, body population, header/trailer population, set of value routes used).",
        assumptions=CODEC_ASSUME,
    ),
    "C02": dict(
        engine="codec", level="exploration",
        args=dict(quick=["-budget", "5", "-valdev", "1", "-entries", "2"],
                  thorough=["-budget", "7", "-valdev", "2", "-entries", "3"]),
        deadline=dict(quick=110, thorough=1500),
        rule="every message of the enumerated space that satisfies the stated preconditions (unique tags, first field of each entry populated, non-empty values) is serialised, parsed into a fresh empty message of the same template in strict and non-strict mode, compared leaf by leaf (dynamic type and value; floats bit-equal; times Equal and UTC; entry counts and order) and re-serialised (byte-identical). Non-trivial-distinct key: (typed body shape, populations, non-default values present).",
        assumptions=CODEC_ASSUME + ["a message whose serialisation already lost a populated field (C17's findings) is outside C02's premise and is counted under counters.skipped"],
    ),
    "C18": dict(
        level="exploration",
        phases=[dict(engine="codec", args=dict(quick=["-budget", "5"], thorough=["-budget", "7"])),
                dict(engine="sess", args=[])],
        deadline=dict(quick=110, thorough=1500),
        rule="for every template unit, every population, every tag t of template ∪ framing ∪ {34}: (i) each String/Raw field takes the values t=, t=1, xt=2, y\\x02t=, =t=; (ii) a decoy field with tag 1t, t1, 9t, t0, t-without-first-digit, t-without-last-digit is placed before / after the genuine fields; (iii) genuine field or group present/absent. The message is built by the harness encoder; Unmarshal (strict and not) must yield exactly the population and ValueByTag must equal the reference whole-tag lookup for every tag. Non-trivial-distinct key: (unit, typed shape, population, kind {plain, decoy-before, decoy-after, taglike-value}, values, decoy).",
        assumptions=CODEC_ASSUME + ["decoy fields are placed at top level only (after MsgType / before CheckSum); the trailer is left unpopulated (C17 known finding)",
                                    "second phase (sess engine): 34 messages whose values contain / end with '10=', whose tags end in 10, or with a field longer than 4096 bytes are delivered in pairs through the real Conn on the scripted socket (both roles, 5 read partitions each); delivered boundaries must equal sent boundaries"],
    ),
    "C03": dict(
        engine="codec", level="exploration",
        args=dict(quick=["-bases", "200"], thorough=["-bases", "5000"]),
        deadline=dict(quick=110, thorough=1500),
        rule="for each base message (hand-picked + enumerated family, <= 130 bytes) the complete single-damage neighbourhood: every substitution (|m|*255), every interior insertion ((|m|-1)*256), every deletion, every proper prefix; each variant parsed from an exact-capacity slice in strict and non-strict mode; it must be rejected, and whenever the library accepts a byte string the independent integrity validator must accept it too. Non-trivial-distinct key: (base message, damaged position).",
        assumptions=CODEC_ASSUME,
    ),
    "C11": dict(
        level="exploration",
        phases=[dict(engine="codec", args=dict(quick=["-len", "7", "-tokens", "4"], thorough=["-len", "8", "-tokens", "5"])),
                dict(engine="sess", args=[])],
        deadline=dict(quick=200, thorough=1800),
        rule="(i) every byte string of length <= L over the alphabet {8,9,1,0,3,=,SOH,A} against 5 message types (Heartbeat, Logon, MarketDataRequest with groups nested three deep, a 3-level nested template, a typed flat template), strict and non-strict, plus ValueByTag for 5 tags; (ii) every sequence of <= K tokens over {SOH,=,35,34,10,0,1,2,A, count tags and first-entry tags of the target} framed with a correct BodyLength and CheckSum. A call must return without panic (watchdog: 10 s without progress = hang). Non-trivial-distinct key: the input string (i) / (target, length, index class) (ii).",
        assumptions=CODEC_ASSUME + ["second phase (sess engine): the same kind of input through the handler's dispatch and the session's raw-byte look-ups and typed parsers: role x state {before logon, logged on, own TestRequest outstanding, own Logout outstanding} x MsgType {0,1,2,3,4,5,A,D,absent} x every sequence of <= 2 (thorough 3) tokens from a 48-token alphabet of well-formed, empty, value-less, tag-less and duplicated fields of the tags the session reads, correctly framed (a seventh also with a wrong CheckSum); oracle: no task panics, the execution terminates"],
    ),
}

SESS_ASSUME = [
    "explored object: the real handler/session/store code, source-rewritten onto the controlled scheduler (engine/rewrite + engine/vsched); the rewriter and the vsched channel/mutex/context/timer models are trusted (DESIGN.md §5)",
    "strict virtual time: computation takes zero time, timers fire only when no task is enabled",
    "inbound messages come from an independent encoder, outbound bytes are read by an independent tokenizer",
]
CHECKS.update({
    "C06": dict(
        engine="sess", level="model_checking", args=[],
        deadline=dict(quick=110, thorough=1500),
        rule="all histories up to the depth bound over the alphabet {acceptable/refused/damaged Logons (hb below/above limits, disallowed method, refused credentials, bad checksum, bad length, non-numeric HeartBtInt, sequence number ahead), Heartbeat, TestRequest, ResendRequest, Logout, application and unknown types, local Send, local Logout}, both roles; each history replayed from scratch on the real handler+session, every event run to quiescence; reference automaton W/L/O evaluated after every step. States = distinct (monitor state, session fingerprint) pairs; transitions = (history, event) extensions executed.",
        assumptions=SESS_ASSUME,
    ),
    "C07": dict(
        engine="sess", level="model_checking", args=[],
        deadline=dict(quick=110, thorough=1500),
        rule="all histories up to the depth bound over inbound events that contain no acceptable Logon for the acceptor {refused/damaged Logons, Heartbeat, TestRequest, ResendRequest over six ranges, Logout, application/unknown types, three heartbeat periods of silence}, with a fresh store and with a store already holding the messages of an earlier session; oracle: every outbound message before the first successful logon has MsgType A, 5 or 3.",
        assumptions=SESS_ASSUME,
    ),
    "C10": dict(
        engine="sess", level="model_checking", args=[],
        deadline=dict(quick=110, thorough=1500),
        rule="both roles; every outbound history pattern of up to N messages after the logon message (each either a Heartbeat reply or an application message); then a ResendRequest for every (b,e) in [0,n+2]^2, and for short histories every ordered pair of two such requests; plus every (stored incoming counter in 0..4, Logon MsgSeqNum in 1..6) for gap detection. Oracle: retransmissions are byte-identical recorded first transmissions, inside the range, ascending, complete when 1<=b<=e<=n or e=0; ResendRequest at logon iff a gap exists and BeginSeqNo = first missing number. States = distinct (role, pattern, requests) configurations reached; transitions = scheduler steps executed.",
        assumptions=SESS_ASSUME,
    ),
    "C13": dict(
        engine="sess", level="fault_enumeration", args=[],
        deadline=dict(quick=240, thorough=1500),
        rule="H2 full stack on the scripted socket. role {initiator, acceptor} x buffer {0,1,10} x life-cycle point {connected without logon, logged on idle, two inbound messages in flight, two application sends in flight with the peer not reading, logout sent} x cause {peer EOF, peer reset, read error mid-message, write error, write blocked past the deadline, Initiator.Close / Acceptor.Close, handler.Stop, Session.Stop} x POSITION: the cause is fired by an urgent task at scheduler step k after the life-cycle point for every k (stride 2 in the quick tier beyond 120) up to the length of the undisturbed run (cap 400), so every relative timing of cause and pending hand-offs is enumerated; plus delay-bounded (1) schedule deviations on selected cells. After the cause 60 virtual seconds pass, a late Send is issued, 30 more seconds pass, the acceptor is closed. Oracle: serving call returned, socket closed, disconnect/stopped notification for peer-caused endings, the late Send returned, no task spawned by library code is left. A distinct non-trivial case = distinct (role, buffer, point, cause, observed outcome vector).",
        assumptions=SESS_ASSUME + ["heartbeat interval 1 s, write deadline 5 s, close timeout 1 s; settling time 60 + 30 (+10) virtual seconds",
                                   "fault positions are enumerated at scheduler-step granularity of the default schedule; other schedules only through the delay-bounded phase"],
    ),
    "C14": dict(
        engine="sess", level="model_checking", args=[],
        deadline=dict(quick=110, thorough=1500),
        rule="after a deterministic logon, all histories up to the depth bound over {TestRequest with each of 15 TestReqIDs (containing '=', tag-like text, space, binary bytes, 300 bytes), Heartbeat, application message, ResendRequest, local Send, three back-to-back deliveries queued before the dispatcher runs}, both roles; oracle: exactly one Heartbeat per TestRequest, TestReqID byte-identical, replies in request order and before any output caused by a later message.",
        assumptions=SESS_ASSUME,
    ),
    "C15": dict(
        engine="sess", level="model_checking", args=[],
        deadline=dict(quick=110, thorough=1500),
        rule="both roles x close timeout {0, 1 s, 10 s} x every traffic prefix of 0..2 events over {TestRequest, application message, local Send} x ending {peer Logout (twice), local Logout then the peer's answer, local Stop with the answer arriving never / at half the timeout / exactly at it / 1 s after it}; plus local Logout with the answer delayed by 0.5..3.5 s while the timers of a 1 s / 2 s heartbeat interval run. Oracle: one Logout per peer Logout and no second one; own Logout not answered again, EventLogout raised once; Stop sends a Logout and the session context is cancelled exactly at the instant the answer is processed when that is before the deadline, else exactly at the deadline. States = distinct cases; transitions = scheduler steps.",
        assumptions=SESS_ASSUME,
    ),
    "C19": dict(
        engine="sess", level="model_checking", args=[],
        deadline=dict(quick=110, thorough=1500),
        rule="both roles x every registration interleaving of up to A all-types and T type-specific outgoing handlers x every accept/refuse vector x store failing on the k-th save (k = never,1,2,3) x message type {Heartbeat, MarketDataRequest} x 3 sends; inbound: every registration interleaving of all-types / type-specific incoming handlers. Oracle: call log = [save, all-types in registration order, type-specific in registration order] cut at the first refusal; refusal or save failure => Send returns an error and nothing is transmitted; the bytes every handler sees, the stored bytes and the transmitted bytes are identical and stored under the transmitted MsgSeqNum.",
        assumptions=SESS_ASSUME + ["outgoing handlers yield to the scheduler inside the callback (arbitrary delay in application code)"],
    ),
    "C08": dict(
        engine="sess", level="model_checking", args=[],
        deadline=dict(quick=140, thorough=1500),
        rule="both roles x heartbeat interval N (quick {1,10,60}, thorough {1,2,10,30,60}) x every placement of up to 2 actions {application send, inbound Heartbeat, inbound application message} on a grid of virtual instants (k*tau/2, k*tau +-1 ms, incoming-timer ticks +-1 ms, N and both deadlines exactly and +-1 ms; thorough: also 3 actions on the tick grid), plus bursts of three actions at one instant and steady traffic of four periods for six intervals; horizon 3.5 T. Oracle on the virtual timeline of outbound messages from the logon message to the disconnect or horizon: every gap (including the final one) <= N + N/10, and every Heartbeat without TestReqID >= N after the previous outbound message. States = distinct placements executed; transitions = scheduler steps; a distinct non-trivial case = distinct (role, N, action kinds, observed heartbeat/test-request/disconnect counts).",
        assumptions=SESS_ASSUME + ["H1 level: the connection's writer loop is represented by the harness task that drains DefaultHandler.Outgoing(); its timestamps are the virtual instants of hand-off"],
    ),
    "C09": dict(
        engine="sess", level="model_checking", args=[],
        deadline=dict(quick=140, thorough=1500),
        rule="both roles x heartbeat interval N (quick {1,20,40}, thorough {1,5,20,39,40,60}, so that max(1,N/20) takes 1,1,1,1,2,3) x the same timed grid of placements as C08 (total silence is the empty placement; arrivals at deadline -1 ms / exactly / +1 ms for the first and second deadline; an answer at every grid instant of the second period; steady traffic). Oracle (window rule, T = N + max(1,N/20), L = latest of logon / last arrival / previous TestRequest): TestRequest only in [L+T, L+T+T/10), disconnect only while a TestRequest is outstanding and in the same window after it, nothing overdue at any event or at the horizon, any arrival restarts the period; disconnect event raised once and the handler context cancelled at the same instant. An arrival that shares its virtual instant with an expiry may be ordered either way.",
        assumptions=SESS_ASSUME + ["closing of the socket after the handler stops is checked on the full stack by C13's scenarios (cause: silent peer)"],
    ),
    "C04": dict(
        engine="sess", level="model_checking", args=[],
        deadline=dict(quick=140, thorough=1500),
        rule="H2 (real Conn + Initiator/Acceptor + DefaultHandler on a scripted net.Conn/Listener). (a) default schedule: every sequence of 1-3 messages from a 5-message pool (values ending in '10=abc', tags ending in 10 with 3-byte values, a value starting with '10=', a 260-byte value) x {one byte per read, one message per read, one read, every single cut point (buffer 1; thorough: all buffers), every pair of cut points for selected sequences} x buffer sizes {0,1,10} x both roles; two simultaneous connections on one acceptor with different sequences. (b) schedule exploration with delay bounding (quick 1, thorough 2) of representative partitions (no cut, a cut inside a value before '10=', cuts inside the CheckSum field) and of two connections. (c) outbound: two tasks calling Send twice each and one calling SendRaw twice, all schedules within the bound. Oracle: per connection the handler callbacks receive exactly the sent messages, once, byte-identical, in order, never overlapping, never another connection's; the written stream tokenises into whole messages, each exactly once, Send messages in hand-off order.",
        assumptions=SESS_ASSUME + ["partition enumeration uses the default schedule; schedule exploration is limited to the representative partitions listed"],
    ),
    "C05": dict(
        engine="sess", level="model_checking", args=[], min_outcomes=10,
        deadline=dict(quick=140, thorough=1500),
        rule="after a deterministic logon (set-up region): G sender tasks x M application messages with (G,M) in {(2,1),(2,2),(3,1)}, out-buffer sizes {0,1,10}, both roles, counter store / message store / an outgoing handler yielding inside the call; variants: an inbound TestRequest answered concurrently on the dispatch task, a damaged inbound message rejected concurrently, the heartbeat timer expiring among the sends (early-timer deviation, loose virtual time), a second session continuing on the same counter store. All schedules within the preemption bound (quick 1, thorough 2; switches forced by blocking are free and all explored). Oracle on the messages handed to the connection writer: MsgSeqNum = first..first+n-1 in wire order, comp ids, SendingTime in FIX format, within the send window and non-decreasing, every application message exactly once. States = distinct scheduler-visible states (task program points x object ids x timers); a distinct non-trivial case = distinct (scenario, wire-order assignment of senders to numbers, deviation cost).",
        assumptions=SESS_ASSUME + ["H1 level (handler + session + store): the writer loop is the harness task draining Outgoing(); the H2 writer path is covered by C04's outbound scenario",
                                   "interleaving at synchronisation-operation granularity: unsynchronised accesses between those points are C20's subject"],
    ),
    "C20": dict(
        engine="sess", race=True, level="model_checking", args=[],
        deadline=dict(quick=240, thorough=1500),
        rule="scenario of intended use per role {acceptor, initiator} x ending {Session.Stop + peer answer, peer Logout, silent peer -> TestRequest -> Disconnect}: two application sender tasks (2 sends each, 700 ms apart), a task polling IsLogged, a task registering event handlers while events fire, the inbound dispatch path processing TestRequest, ResendRequest over stored messages, Heartbeat, application message, Logout; both timer tasks actually expiring (heartbeat interval 1 s, 2.5 s of inbound silence); bundled memory store; handler stopped at the end. All schedules within the delay bound (quick 1, thorough 2), each executed in the race-gate build with the Go race detector as per-execution oracle; a report is attributed to the execution after which the detector log grew and reduced to {innermost library function of access A <-> of access B}. A distinct non-trivial case = distinct (scenario, deviation cost) pair; evaluations = executions under the detector.",
        assumptions=SESS_ASSUME + ["race-gate construction (DESIGN.md 2.6): scheduler hand-offs are hidden from the detector (//go:norace flag spinning), program-level edges are carried by real primitives; extra edges (per-channel mutex, goroutine creation by the carrier of the scheduler for AfterFunc bodies) can only hide races, never invent them",
                                   "the detector reports a racing pair of code locations once per process; signatures are function-level"],
    ),
    "C16": dict(
        engine="sess", level="model_checking", args=[],
        deadline=dict(quick=110, thorough=1500),
        rule="all histories up to the depth bound over valid administrative traffic plus damaged administrative messages (wrong checksum, wrong length, non-numeric numeric field, MsgSeqNum missing / non-numeric) so that every (type, damage, session state) cell is reached at some position followed by valid traffic; oracle per invalid or not-permitted administrative message: exactly one Reject with the right RefSeqNum / RefTagID=34, IsLogged unchanged, handler not stopped, later valid messages processed normally.",
        assumptions=SESS_ASSUME,
    ),
})

CHECKS["C12"] = dict(
    engine="gen", level="exploration", args=[],
    deadline=dict(quick=240, thorough=1500),
    rule="schemas: a compact 3-message schema (nested group, component, enum, every cast incl. Raw and Time) and EVERY single-site mutation of it under the operator set {remove member, swap adjacent members, toggle required, rename a field consistently, add a field of each mapped type, add a message, add a component reference, add a group, change a type-mapping entry to each other cast, duplicate field number (must be rejected), duplicate message type (must be rejected)}; source/fix44.xml, its comparison with tests/fix44 (declaration for declaration, go/ast), and a strided subset (quick 1/9, thorough 1/2) of its single-site mutations; generator/testdata/fix.4.4.xml unmodified (must be rejected) and with the duplicate removed (~90 messages). Per accepted schema: two runs byte-identical, output directory forms ./p, a/b/p, absolute, ./x/../y/p give the same package `p`, the package compiles against the working tree, and an XML-derived driver (own XML reader, type table and naming rules) checks every constant, one-setter-one-field on the wire, getters, member order with everything populated (components, groups, header), group AddEntry/Entries and the typed argument list of every populating constructor. A distinct non-trivial case = a distinct schema of the family.",
    assumptions=["bounded-exhaustive over the stated mutation neighbourhood only", "trusted: the Go compiler (type checking of the driver against the generated API is part of the oracle), xml.etree, go/ast printer",
                 "the driver exercises serialisation and accessors of generated code; parsing into generated types is C02's subject"],
)

ENGINES = [
    {"name": "codecmc", "path": "harness/codec", "serves_properties": ["C01", "C02", "C03", "C11", "C17", "C18"],
     "kind_free_text": "E1: bounded-exhaustive enumeration of the codec input space (templates x populations x values x damage x byte strings) on the real fix / fix/encoding packages against an independent reference codec"},
    {"name": "vsched", "path": "engine/vsched + engine/rewrite + harness/sess", "serves_properties": ["C04", "C05", "C13", "C20", "C06", "C07", "C08", "C09", "C10", "C14", "C15", "C16", "C19"],
     "kind_free_text": "E2: the real transport/session code, source-rewritten so that goroutines, channels, select, sync, context, time and errgroup run on a controlled scheduler with virtual time; stateless deviation-bounded DFS over schedules and exhaustive enumeration of event histories"},
]

ENGINES.append({"name": "genmc", "path": "harness/gen", "serves_properties": ["C12"],
                "kind_free_text": "E3: bounded-exhaustive enumeration of a schema mutation neighbourhood; each schema is generated (twice, four output-directory forms), compiled against the working tree and exercised by a driver derived independently from the XML"})

NOT_APPLICABLE = {}

LEVEL_TEXT = {
    "C01": "Bounded-exhaustive exploration of the real serializer: every message of a finite, explicitly bounded template/population/value space is serialised and checked by a byte-level oracle that knows nothing about the library. Right level because the property is a pure function of the input and its failure modes (digit-count boundaries, modular wrap, empty parts) are reached by small inputs.",
    "C17": "Bounded-exhaustive exploration of the real serializer against a reference field-list model, with values entering through every public route (constructor, Set, FromBytes) in header, body, trailer, components and group entries.",
    "C02": "Bounded-exhaustive exploration of parse∘serialize on the real codec: every message of the bounded space is serialised, parsed into a fresh template in both modes, compared leaf by leaf with the population and re-serialised.",
    "C18": "Bounded-exhaustive exploration of tag-boundary confusion: every template tag is planted inside values and as decimal prefix/suffix decoy tags, and both Unmarshal and ValueByTag are compared with a whole-tag reference.",
    "C03": "Exhaustive enumeration of the complete single-damage neighbourhood (all substitutions, insertions, deletions, prefixes) of a base set of valid messages, parsed in both modes, with an independent integrity validator as second oracle.",
    "C11": "Exhaustive enumeration of all short byte strings over a delimiter-heavy alphabet and of all framed token strings up to a bound, against message types with nested groups; oracle is absence of panic and termination.",
}

LEVEL_TEXT.update({
    "C06": "Explicit-state exploration of the real session: every inbound/local event history up to a depth bound is executed on fresh real objects under a controlled scheduler and checked step by step against a reference logon automaton. Right level because the property is a protocol state-machine invariant over histories.",
    "C07": "Explicit-state exploration of the real session over all pre-logon inbound histories up to a depth bound, with an empty and a pre-populated shared store.",
    "C16": "Explicit-state exploration of the real session over histories mixing valid and damaged administrative messages in every session state.",
    "C15": "Exhaustive enumeration of logout/stop scenarios (role x close timeout x traffic prefix x ending x answer timing) on the real session under strict virtual time, so that cancellation instants are compared exactly.",
    "C19": "Exhaustive enumeration of handler registration orders, accept/refuse vectors and store-failure positions on the real handler+session, with an instrumented store and call log as oracle.",
    "C04": "Exhaustive enumeration of read partitions of the inbound stream on the real connection stack over a scripted socket, plus stateless (delay-bounded) schedule exploration of representative partitions, two simultaneous connections and concurrent outbound senders.",
    "C05": "Stateless model checking of the real send path: all interleavings of the sender tasks, the dispatch task and the timer task at synchronisation-operation granularity within a preemption bound, iterated 0,1,(2), every execution run to completion and its wire image checked.",
    "C08": "Exhaustive timed-grid exploration of the real session and its polling timers under strict virtual time: every placement of up to k actions on a grid that contains all timer ticks, the deadlines and their +-1 ms neighbours, with the exact timeline of outbound messages as observation.",
    "C09": "Exhaustive timed-grid exploration of the real session and its polling timers under strict virtual time with a window-rule oracle for TestRequest / disconnect, ties resolved either way.",
    "C10": "Exhaustive enumeration of (outbound history, resend range[, second range]) and of (stored counter, logon sequence number) pairs on the real session and store, every case executed to quiescence under the controlled scheduler and compared with the recorded first transmissions.",
    "C13": "Exhaustive fault enumeration on the real full stack over a scripted socket: every termination cause at every scheduler-step position after every life-cycle point, for both roles and three buffer sizes, each run to quiescence under virtual time with a leak / liveness oracle; plus delay-bounded schedule exploration of selected cells.",
    "C20": "Stateless, delay-bounded schedule exploration of the intended-use scenario with the Go race detector as oracle on every explored schedule (race-gate build: the controlled scheduler is invisible to the detector, the program's own synchronisation is not).",
    "C12": "Bounded-exhaustive exploration over programs: every schema in a single-site mutation neighbourhood of three base schemas is run through the real generator, the output compiled and executed under an XML-derived driver; generation determinism and output-directory independence are compared byte for byte.",
    "C14": "Explicit-state exploration of the real logged-on session over all inbound histories up to a depth bound with a collision-forcing TestReqID alphabet, including queued back-to-back deliveries.",
})

TECHNIQUE = {
    "C06": "explicit-state model checking of the implementation: exhaustive event-history enumeration (depth-bounded) under a controlled scheduler with a reference automaton as oracle",
    "C07": "explicit-state model checking of the implementation: exhaustive pre-logon history enumeration (depth-bounded) under a controlled scheduler",
    "C16": "explicit-state model checking of the implementation: exhaustive history enumeration over valid + damaged admin messages in every state",
    "C15": "explicit-state model checking of the implementation under virtual time: exhaustive enumeration of logout/stop scenarios and answer timings",
    "C19": "explicit-state model checking of the implementation: exhaustive enumeration of handler configurations and injected store faults",
    "C04": "exhaustive environment-answer enumeration (read partitions, <= 2 cut points) + delay-bounded stateless schedule exploration of the real connection stack on a scripted socket",
    "C05": "stateless model checking of the implementation: deviation(preemption)-bounded exhaustive schedule exploration under a controlled scheduler",
    "C08": "explicit-state model checking of the implementation under virtual time: exhaustive placement of timed events on a tick-aligned grid (discrete-event semantics)",
    "C09": "explicit-state model checking of the implementation under virtual time: exhaustive placement of timed arrivals on a tick-aligned grid, window-rule oracle",
    "C10": "explicit-state model checking of the implementation: exhaustive enumeration of outbound histories x resend ranges under a controlled scheduler, reference = recorded first transmissions",
    "C13": "exhaustive fault-position enumeration (cause x life-cycle point x scheduler step) on the implementation under a controlled scheduler and virtual time, plus delay-bounded schedule exploration",
    "C20": "delay-bounded exhaustive schedule exploration under a controlled scheduler with the Go race detector as per-execution oracle (race-gate build)",
    "C12": "bounded-exhaustive enumeration of a schema mutation neighbourhood through the real generator, with compile-and-run of an independently derived driver as oracle",
    "C14": "explicit-state model checking of the implementation: exhaustive logged-on history enumeration (depth-bounded) with TestReqID alphabet",
    "C01": "bounded-exhaustive input enumeration on the real code vs reference oracle (small-scope model checking of a sequential function)",
    "C17": "bounded-exhaustive input enumeration on the real code vs reference field-list model",
    "C02": "bounded-exhaustive input enumeration on the real code, differential round-trip oracle",
    "C18": "bounded-exhaustive input enumeration on the real code vs whole-tag reference parser/lookup",
    "C03": "exhaustive single-fault (byte damage) neighbourhood enumeration on the real parser",
    "C11": "exhaustive enumeration of all byte/token strings up to a length bound on the real parser",
}

# ---- parts added in seeding rounds 3 and 4 (appended to the rules above; details in DESIGN.md §3) ----
RULE_EXTRA = {
    "C01": "Also: bytes returned by earlier serialisations of the same object must stay intact; non-canonical float texts through FromBytes; a refused Set changes nothing. Rounds 6-13: a fifth of the templates use tags of 7-11 digits, a quarter 8-digit framing tags; String values with '%'; nested groups whose entries carry different non-zero counts; identical neighbouring entries; a float sweep of 10,500 arithmetic results.",
    "C03": "Also: every variant parsed into a message object that parsed the intact message before; replays re-execute the worker's enumeration prefix (stateful parsers). Rounds 6-13: every third damaged variant is also parsed through a DefaultUnmarshaller whose field validator is an application decorator (implements Do only).",
    "C04": "Also: read deadlines honoured in virtual time with a pausing peer at every single cut; BeginString look-alikes in the pool; the handler stopped while a callback runs with messages queued (delay-bounded schedules). Rounds 6-13: own write before a 7 s pause of the peer; another connection of the acceptor ending by an error of its own (message without MsgType) before/while this one's messages arrive; the stream ending at every position inside the last message (positions in the trailer also under delay bound 1); one field of 70,000 bytes; one connection after another on one acceptor with messages queued for the first peer.",
    "C05": "Also: one message object sent repeatedly with pauses and through a second session (SendingTime = instant on the wire, comp ids of the sending session). Rounds 6-13: timestamp sweep (150 instants around the ends of a millisecond, second, minute, hour, day, month, 28/29 February, year; format exact, |52 - send instant| < 1 ms); identifier part (two accepting sessions built from one settings object, every interleaving of their scripts, a refused Logon answered with the identifiers mirrored from it); a counter store that takes 5 ms per number with three senders; Logon with ResetSeqNumFlag=Y in the history alphabet.",
    "C06": "Also: Logons lacking 98 / 108; quiet-session oracle after 35 s of silence; logon parameter sweep (32 intervals incl. int64 wrap-around values x method x Opts.Tags full/minimal). Rounds 6-13: events Logon(141=Y), Heartbeat with zero-padded MsgSeqNum (+9), App(35=a); sweep: second logon of an initiating session through LogonRequest after a peer-begun and after a locally begun logout; the world's callbacks query the session.",
    "C07": "Also: Logons lacking 98 / 108; logon parameter sweep followed by three periods of silence and a TestRequest. Rounds 6-13: events Heartbeat with zero-padded MsgSeqNum, App(35=a).",
    "C08": "Also: second logon on the same connection (previous interval equal / smaller / larger); transient message-store failure on the k-th save (k <= 4). Rounds 6-13: inbound TestRequest as an action kind; sessions writing timestamps in Asia/Tokyo and America/New_York (skipped without a time-zone database).",
    "C09": "Also: second logon on the same connection; inbound retransmissions (PossDupFlag=Y); silence after a pending or completed logout must end in the disconnect event. Rounds 6-13: inbound TestRequest as an action kind; time-zone cases as C08. Round 16: inbound messages with a missing / non-numeric MsgSeqNum (pattern unreadable-seq) count as arrivals.",
    "C10": "Also: expected inbound number produced by real inbound histories (arrivals in every receiving state, three kinds of logout) followed by a second Logon with number expected+{0,1,3}. Rounds 6-13: one refused application message at every position (its number stays unused); 130-message (T: 260) histories with 12 ranges; a re-stamping application handler registered before the session starts; a store that keeps counterparties apart; histories crossing one million; SequenceReset and dropped-connection (no logout, next session on the same store) histories; two sessions on one store answering ResendRequests at once.",
    "C11": "Also: family (iii) CheckSum field not last; family (iv) framing fields in every order with impossible values; family (v) every field and every group count of every template (13 message types), one at a time, with each of 29 odd values (empty, lone sign, one byte, over-long digits, half a timestamp, non-ASCII), as a top-level field, inside the first and inside the second entry of its group(s). Rounds 6-13: session part also with every one-byte MsgType value and extreme BeginSeqNo/EndSeqNo tokens (-2^63, -2^62, -1, 2^63-1).",
    "C12": "Also: regeneration over an earlier, longer generation; every type re-spelled consistently in schema and mapping; one Generator object executed twice through the library API. Rounds 6-13: remove-pipeline and empty-container mutations (the generator may refuse); accept/refuse verdict determinism; output-directory forms mixed case / space / percent / non-ASCII / symbolic link; a second Generator on the same parsed schema object with another type mapping compared with a fresh parse.",
    "C14": "Also: Logout+Logon event; schedule part with a stalled writer (4-slot queue, 8 requests, delay bound 1/2). Rounds 6-13: events ResendRequest(1,0) and TestRequest with zero-padded BodyLength (two paddings).",
    "C15": "Also: endings that begin while the session's own TestRequest is outstanding; Stop with a full outgoing queue. Rounds 6-13: Logout from inside the logon callback; an application logout callback returning false before Stop; initiator re-logon through LogonRequest after both logout endings. Round 16: Stop called twice before the answer.",
    "C16": "Also: intact admin messages without MsgSeqNum; a tag ending in 34 / text 34= ahead of MsgSeqNum; 32 s of silence; connection-level part (damaged message + valid follower through the real Conn, 360 cases). Rounds 6-13: events Logon(141=Y), Heartbeat with zero-padded MsgSeqNum, App(35=a); three sessions built from one options object, one of them given an unmarshaller of its own.",
    "C17": "Also: as C01 (earlier bytes intact, non-canonical float texts, refused Set). Rounds 6-13: as C01; between two serialisations of a message another message of the same type with another BeginString is parsed into an object of its own (the first one's bytes must not change).",
    "C18": "Also: look-alikes of BeginString / BodyLength / MsgType / MsgSeqNum in the connection phase; session-level decoys of MsgType / MsgSeqNum with the SequenceReset builder configured.",
    "C19": "Also: handler removal by the registered id; retransmissions through re-stamping handlers; the session's final Logout refused by the store or a handler; inbound backlog at stop under delay-bounded schedules. Rounds 6-13: retransmissions refused by a handler / by the store, then a send; an error callback that sends a message itself; handlers registered for the other-case and padded spellings of the type.",
    "C20": "Also: full ResendRequests right after the senders' second round and after a timer heartbeat; Logon-Logout-Logon within the first polling step. Rounds 6-13: variants register-during-logon, error-stop (StopWithError + context cancel with blocked senders), failing-store (error reports while the peer logs out and on), logged-out timer expiry followed by an inbound message.",
    "C02": "Rounds 6-13: as C01; after the round trip one field of one group entry of the PARSED message is changed in place and exactly that field must change on the wire (entries decoded from identical bytes are entries of their own).",
    "C13": "Rounds 6-13: c13x scenarios - a client refused in the acceptor callback (peer open / hung up / reset), the initiator's handler stopped (directly, by the silent-peer rule) while the dispatch loop is inside a slow callback; delay bound 1 (T: 2).",
}
for _p, _x in RULE_EXTRA.items():
    CHECKS[_p]["rule"] += " " + _x
# quick deadlines leave a factor of about three over the time on 16 idle cores (the checks stop cleanly at the
# deadline and say so: exhaustive=false)
CHECKS["C20"]["replay_min"] = 1
CHECKS["C16"]["deadline"]["quick"] = 240
CHECKS["C08"]["deadline"]["quick"] = 300
CHECKS["C09"]["deadline"]["quick"] = 240
CHECKS["C07"]["deadline"]["quick"] = max(CHECKS["C07"]["deadline"]["quick"], 180)
CHECKS["C06"]["deadline"]["quick"] = max(CHECKS["C06"]["deadline"]["quick"], 150)
CHECKS["C05"]["deadline"]["quick"] = max(CHECKS["C05"]["deadline"]["quick"], 200)
