"""Per-property configuration of vcheck: engine, worker arguments per tier, claimed level,
non-triviality rule and assumptions (copied into every evidence file)."""

CODEC_ASSUME = [
    "bounded-exhaustive: only templates up to the stated node budget / depth 3, the stated tag pool, value alphabets and value-deviation bound are covered",
    "trusted: Go compiler/runtime, strconv, time formatting, bytes; the 150-line reference codec in harness/codec/ref.go",
    "values never contain SOH (0x01), as the property statements require",
]

CHECKS = {
    "C01": dict(
        engine="codec", level="exploration",
        args=dict(quick=["-budget", "5", "-valdev", "1", "-entries", "2"],
                  thorough=["-budget", "6", "-valdev", "2", "-entries", "3"]),
        deadline=dict(quick=110, thorough=1500),
        rule="every message of the enumerated space (template shape × type order × framing-tag set × header/trailer form × population × value route × value deviation; BodyLength sweep 0..1100 payload bytes; checksum-residue sweep; 11 generated fix44 types) is serialised by the library and checked against the byte-level oracle. A case is non-trivial-distinct by the key (typed body shape, body population, header/trailer population, digit count of BodyLength, checksum class {<10,<100,>=100}).",
        assumptions=CODEC_ASSUME,
    ),
    "C17": dict(
        engine="codec", level="exploration",
        args=dict(quick=["-budget", "5", "-valdev", "1", "-entries", "2"],
                  thorough=["-budget", "6", "-valdev", "2", "-entries", "3"]),
        deadline=dict(quick=110, thorough=1500),
        rule="every message of the enumerated space (as C01, with values entering through constructor, Set and FromBytes, and with populated trailer fields) is serialised and its field list between MsgType and CheckSum compared with the reference field list of the population. Non-trivial-distinct key: (typed body shape, body population, header/trailer population, set of value routes used).",
        assumptions=CODEC_ASSUME,
    ),
    "C02": dict(
        engine="codec", level="exploration",
        args=dict(quick=["-budget", "5", "-valdev", "1", "-entries", "2"],
                  thorough=["-budget", "6", "-valdev", "2", "-entries", "3"]),
        deadline=dict(quick=110, thorough=1500),
        rule="every message of the enumerated space that satisfies the stated preconditions (unique tags, first field of each entry populated, non-empty values) is serialised, parsed into a fresh empty message of the same template in strict and non-strict mode, compared leaf by leaf (dynamic type and value; floats bit-equal; times Equal and UTC; entry counts and order) and re-serialised (byte-identical). Non-trivial-distinct key: (typed body shape, populations, non-default values present).",
        assumptions=CODEC_ASSUME + ["a message whose serialisation already lost a populated field (C17's findings) is outside C02's premise and is counted under counters.skipped"],
    ),
}
