#!/usr/bin/env python3
"""seedverify — confirm a seeded property-breaking change and run the checks against it.

usage: seedverify.py <id> <property> <seed-dir> <demo-dest-dir> <demo-run-regex> <demo-pkg> [check-prop ...] [--tier quick|thorough]

In a scratch worktree of /repo's HEAD (outside /repo and /verif; removed at the end):
  1. the demonstration passes on the unchanged tree,
  2. patch.diff applies, the tree builds and the full existing test suite passes with it,
  3. the demonstration fails with the change,
  4. each listed check (default: the property itself) is run against the changed tree
     (./vcheck <p> quick --repo <worktree>) and its verdict is recorded.
The seed is stored as /verif/seeded/<id>/{patch.diff, demo_test.go|demo/, meta.json}.
"""
import sys, os, json, subprocess, shutil, time, re

ENV = dict(os.environ, GOFLAGS="-mod=mod", GOPROXY="off", GOSUMDB="off", GOTOOLCHAIN="local")
VERIF = os.path.dirname(os.path.abspath(__file__))


def sh(cmd, cwd=None, timeout=1800):
    p = subprocess.run(cmd, shell=True, cwd=cwd, env=ENV, stdout=subprocess.PIPE, stderr=subprocess.STDOUT, text=True, timeout=timeout)
    return p.returncode, p.stdout


def main():
    a = sys.argv[1:]
    tier = "quick"
    if "--tier" in a:
        i = a.index("--tier")
        tier = a[i + 1]
        del a[i:i + 2]
    sid, prop, sdir, dest, runre, pkg = a[:6]
    checks = a[6:] or [prop]
    wt = "/tmp/sv-%s" % sid
    sh("git -C /repo worktree remove --force %s" % wt)
    rc, out = sh("git -C /repo worktree add --detach %s HEAD" % wt)
    if rc != 0:
        print(out)
        sys.exit(2)
    res = dict(id=sid, property=prop, ran=[])
    try:
        demo_src = os.path.join(sdir, "demo_test.go")
        demo_dst = os.path.join(wt, dest, "zz_seed_demo_test.go")
        demo_dir = os.path.join(sdir, "demo")  # alternative form: a stand-alone program with its own go.mod

        def demo():
            if not os.path.exists(demo_src) and os.path.isdir(demo_dir):
                dd = os.path.join(wt, "zz_seed_demo_prog")
                shutil.rmtree(dd, ignore_errors=True)
                shutil.copytree(demo_dir, dd)
                gm = open(os.path.join(dd, "go.mod")).read()
                gm = re.sub(r"(replace\s+github.com/b2broker/simplefix-go\s*=>\s*)\S+", r"\g<1>" + wt, gm)
                open(os.path.join(dd, "go.mod"), "w").write(gm)
                if os.path.exists(os.path.join(wt, "go.sum")):
                    shutil.copy(os.path.join(wt, "go.sum"), os.path.join(dd, "go.sum"))
                rc, out = sh("go run . " + os.environ.get("SEED_DEMO_ARGS", "").replace("{wt}", wt), cwd=dd, timeout=900)
                shutil.rmtree(dd, ignore_errors=True)
                return rc, out
            os.makedirs(os.path.dirname(demo_dst), exist_ok=True)
            shutil.copy(demo_src, demo_dst)
            rc, out = sh("go test %s -vet=off -count=1 -run '%s' %s" % (os.environ.get("SEED_TEST_FLAGS", ""), runre, pkg), cwd=wt, timeout=900)
            os.remove(demo_dst)
            return rc, out

        rc, out = demo()
        res["demo_on_unchanged_tree"] = "pass" if rc == 0 else "FAIL"
        res["ran"].append("demo on HEAD: exit %d" % rc)
        if rc != 0:
            res["note"] = out[-1500:]
        rc, out = sh("git apply %s" % os.path.join(sdir, "patch.diff"), cwd=wt)
        if rc != 0:
            rc, out = sh("git apply --3way %s" % os.path.join(sdir, "patch.diff"), cwd=wt)
        res["patch_applies"] = rc == 0
        if rc != 0:
            res["note"] = out[-1500:]
            return finish(res, sid, sdir, None)
        rc, out = sh("git diff HEAD", cwd=wt)
        patch_now = out
        rc, out = sh("go build ./... && go test -vet=off -count=1 ./...", cwd=wt)
        if rc != 0:  # flaky socket tests: one retry
            rc, out = sh("go test -vet=off -count=1 ./...", cwd=wt)
        res["suite_with_change"] = "pass" if rc == 0 else "FAIL"
        res["ran"].append("go build ./... && go test -vet=off -count=1 ./... with change: exit %d" % rc)
        if rc != 0:
            res["note"] = out[-2500:]
        rc, out = demo()
        res["demo_with_change"] = "fail (as intended)" if rc != 0 else "PASSES (seed not confirmed)"
        res["ran"].append("demo with change: exit %d" % rc)
        res["detected_by"] = {}
        for c in checks:
            t0 = time.time()
            rc, out = sh("%s/vcheck %s %s --repo %s" % (VERIF, c, tier, wt), cwd=VERIF, timeout=3600)
            viol = [l for l in out.splitlines() if l.startswith("VIOLATION")]
            sigs = [l.strip()[:300] for l in out.splitlines() if l.strip().startswith("sig=")]
            res["detected_by"][c] = dict(exit=rc, violation=bool(viol), sigs=sigs[:6], wall_s=round(time.time() - t0, 1),
                                         broken=[l for l in out.splitlines() if l.startswith("BROKEN")][:2])
            res["ran"].append("./vcheck %s %s --repo <changed tree>: exit %d" % (c, tier, rc))
        return finish(res, sid, sdir, patch_now)
    finally:
        sh("git -C /repo worktree remove --force %s" % wt)
        shutil.rmtree(wt, ignore_errors=True)


def finish(res, sid, sdir, patch_now):
    d = os.path.join(VERIF, "seeded", sid)
    os.makedirs(d, exist_ok=True)
    same = os.path.abspath(sdir) == os.path.abspath(d)
    if patch_now:
        open(os.path.join(d, "patch.diff"), "w").write(patch_now)
    elif not same:
        shutil.copy(os.path.join(sdir, "patch.diff"), os.path.join(d, "patch.diff"))
    if not same:
        if os.path.exists(os.path.join(sdir, "demo_test.go")):
            shutil.copy(os.path.join(sdir, "demo_test.go"), os.path.join(d, "demo_test.go"))
        elif os.path.isdir(os.path.join(sdir, "demo")):
            shutil.rmtree(os.path.join(d, "demo"), ignore_errors=True)
            shutil.copytree(os.path.join(sdir, "demo"), os.path.join(d, "demo"))
    meta = {}
    try:
        meta = json.load(open(os.path.join(sdir, "meta.json")))
    except Exception:
        pass
    if "confirmed" in meta and "breaks" in meta:  # re-verification of an already stored seed
        meta = dict(summary=meta.get("breaks"), needs_to_manifest=meta.get("needs_to_manifest"), how_to_run_demo=meta.get("how_to_run_demo"))
    out = dict(property=res["property"], breaks=meta.get("summary"), needs_to_manifest=meta.get("needs_to_manifest"),
               how_to_run_demo=meta.get("how_to_run_demo"), author="independent sub-agent (given only the property text and a scratch worktree)",
               confirmed=res)
    json.dump(out, open(os.path.join(d, "meta.json"), "w"), indent=1)
    det = {k: ("DETECTED" if v["violation"] else ("BROKEN" if v["exit"] == 2 else "missed")) for k, v in res.get("detected_by", {}).items()}
    print("%s: demo_head=%s applies=%s suite=%s demo_changed=%s checks=%s" % (
        sid, res.get("demo_on_unchanged_tree"), res.get("patch_applies"), res.get("suite_with_change"), res.get("demo_with_change"), det))
    for k, v in res.get("detected_by", {}).items():
        for s in v["sigs"][:3]:
            print("     ", k, s[:220])


if __name__ == "__main__":
    main()
