#!/bin/bash
# Race-gate self-test (see engine/selftest_race/main.go).  Writes evidence/_racegate_selftest.json.
set -e
cd "$(dirname "$0")"
export GOFLAGS=-mod=mod GOPROXY=off GOSUMDB=off GOTOOLCHAIN=local
python3 ./vcheck --tools >/dev/null
S=$(mktemp -d /var/tmp/vselftestrace.XXXXXX)
trap 'rm -rf "$S"' EXIT
bin/rewrite engine/selftest_race "$S/src" >/dev/null
bin/rewrite -norace engine/vsched "$S/vsched" >/dev/null
printf '\nrequire vsched v0.0.0\nreplace vsched => %s\n' "$S/vsched" >> "$S/src/go.mod"
python3 ./vcheck --build-fixups "$S/src" -race -tags racegate -o "$S/bin" .
fail=0
echo '{"programs":[' > "$S/out.json"
first=1
for p in $("$S/bin" | sort); do
  rm -f "$S"/log.*
  out=$(GOMAXPROCS=1 GORACE="halt_on_error=0 exitcode=0 log_path=$S/log" "$S/bin" "$p" 2>&1) || { echo "FAIL $p: $out"; fail=1; }
  n=$(cat "$S"/log.* 2>/dev/null | grep -c "WARNING: DATA RACE" || true)
  verdict=ok
  case "$p" in
    clean/*) [ "$n" -eq 0 ] || { verdict="FALSE-ALARM"; fail=1; } ;;
    racy/*)  [ "$n" -gt 0 ] || { verdict="MISSED"; fail=1; } ;;
  esac
  [ "$verdict" = ok ] || { echo "FAIL $p: $verdict ($n reports) $out"; cat "$S"/log.* 2>/dev/null | head -30; }
  [ $first = 1 ] || echo ',' >> "$S/out.json"; first=0
  printf '{"program":"%s","race_reports":%s,"verdict":"%s","run":"%s"}' "$p" "$n" "$verdict" "$out" >> "$S/out.json"
done
echo '],"ok":'$([ $fail = 0 ] && echo true || echo false)'}' >> "$S/out.json"
[ "$1" = "--no-evidence" ] || python3 -c "import json,sys; json.dump(json.load(open('$S/out.json')), open('evidence/_racegate_selftest.json','w'), indent=1)"
python3 -c "
import json; d=json.load(open('$S/out.json'))
print('race-gate self-test: %d programs (%d clean, %d racy), ok=%s' % (len(d['programs']), sum(p['program'].startswith('clean') for p in d['programs']), sum(p['program'].startswith('racy') for p in d['programs']), d['ok']))"
exit $fail
