#!/usr/bin/env python3
"""conformance — validates the rewriter + vsched shims against the free-running implementation.

The same scripted session scenarios (harness/conf/scenario.go) are compiled twice: rewritten onto the
controlled scheduler / virtual clock, and unmodified against the repository with the real scheduler
and clock.  The normalised outbound message sequences must be identical.  Auxiliary check (it uses
real time on the free-running side, so it is not one of the registered property checks); result in
evidence/_conformance.json.   usage: ./conformance.py [--repo DIR] [--sess DIR]
"""
import sys, os, json, subprocess, tempfile, shutil, time
V = os.path.dirname(os.path.abspath(__file__))
sys.path.insert(0, V)
import importlib.machinery, importlib.util
loader = importlib.machinery.SourceFileLoader("vcheck_mod", os.path.join(V, "vcheck"))
spec = importlib.util.spec_from_loader("vcheck_mod", loader)
vc = importlib.util.module_from_spec(spec)
loader.exec_module(vc)

def main():
    repo = "/repo"
    sess = os.path.join(V, "harness", "sess")
    a = sys.argv[1:]
    if "--repo" in a:
        repo = os.path.abspath(a[a.index("--repo") + 1])
    if "--sess" in a:
        sess = os.path.abspath(a[a.index("--sess") + 1])
    scratch = tempfile.mkdtemp(prefix="vconf-")
    try:
        # virtual side: harness sources + the shared scenario, rewritten
        os.environ["VERIF_HARNESS_SESS"] = sess
        b = os.path.join(scratch, "b")
        os.makedirs(b)
        vbin = vc.build_sess(repo, b)
        outp = os.path.join(scratch, "virt.json")
        env = dict(vc.GOENV, GOMAXPROCS="1")
        subprocess.run([vbin, "-prop", "CONF", "-out", outp], check=True, env=env, timeout=300)
        virt = json.load(open(outp))
        # real side: unmodified repository, real scheduler and clock
        rd = os.path.join(scratch, "real")
        os.makedirs(rd)
        for f in ("scenario.go", "real_main.go"):
            shutil.copy(os.path.join(V, "harness", "conf", f), rd)
        vc.write_gomod(os.path.join(rd, "go.mod"), "confreal", ["github.com/b2broker/simplefix-go"], {"github.com/b2broker/simplefix-go": repo})
        shutil.copy(os.path.join(repo, "go.sum"), os.path.join(rd, "go.sum"))
        rc, out = vc.run(["go", "build", "-o", os.path.join(scratch, "confreal"), "."], cwd=rd)
        if rc != 0:
            print("BROKEN: real-side build failed\n" + out)
            sys.exit(2)
        p = subprocess.run([os.path.join(scratch, "confreal")], stdout=subprocess.PIPE, env=vc.GOENV, timeout=300, text=True)
        real = json.loads(p.stdout)
        ok = True
        report = {}
        for k in sorted(virt):
            same = virt[k] == real.get(k)
            report[k] = dict(messages=len(virt[k]), identical=same)
            print("%-14s %2d messages  %s" % (k, len(virt[k]), "identical" if same else "DIFFERENT"))
            if not same:
                ok = False
                for i in range(max(len(virt[k]), len(real.get(k, [])))):
                    x = virt[k][i] if i < len(virt[k]) else None
                    y = real[k][i] if i < len(real.get(k, [])) else None
                    if x != y:
                        print("   #%d controlled : %s\n      free-running: %s" % (i, x, y))
        if repo == "/repo":
            json.dump(dict(at=time.strftime("%Y-%m-%dT%H:%M:%SZ", time.gmtime()), scenarios=report, all_identical=ok,
                           sample=virt.get("acc/untimed", [])[:4]), open(os.path.join(V, "evidence", "_conformance.json"), "w"), indent=1)
        sys.exit(0 if ok else 1)
    finally:
        shutil.rmtree(scratch, ignore_errors=True)

if __name__ == "__main__":
    main()
