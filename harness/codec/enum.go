package main

import (
	"strconv"
	"strings"

	"vlib"
)

// enumSer drives the serialisation-side enumeration for C01 / C17 / C02:
//   templates(budget) × routes × populations × header/trailer set/unset  (default values)
//   + value deviation: every populated leaf takes every alphabet value (valdev >= 1), and every
//     pair of populated leaves takes every pair from a reduced alphabet (valdev >= 2, small shapes)
//   + BodyLength sweep (every value 1..1100) and checksum residue sweep (all 256 residues).
func enumSer(R *vlib.Out, prop string, budget, valdev, maxEntries int, sweeps bool) {
	R.Bounds["node_budget"] = budget
	R.Bounds["value_deviation"] = valdev
	R.Bounds["max_group_entries"] = maxEntries
	units := 0
	stop := false
	total := templates(budget, func(idx int, t *tmpl) {
		if stop || !vlib.Mine(idx) {
			return
		}
		if vlib.Expired() {
			R.Cap("deadline")
			stop = true
			return
		}
		units++
		for _, route := range []byte{'c', 's', 'p'} {
			if prop == "C01" && route != 'c' && idx%3 != 0 {
				continue // the value route does not influence framing: sample of routes suffices for C01
			}
			bps := pops(t.Body, route, maxEntries)
			hpsAll := pops(t.Hdr, 's', maxEntries)
			hps := [][]*pop{hpsAll[0]}
			if len(hpsAll) > 1 {
				hps = append(hps, hpsAll[len(hpsAll)-1])
			}
			tpsAll := pops(t.Trl, 's', 1)
			tps := [][]*pop{tpsAll[0]}
			if len(tpsAll) > 1 {
				tps = append(tps, tpsAll[len(tpsAll)-1])
			}
			for _, bp := range bps {
				for _, hp := range hps {
					for _, tp := range tps {
						checkSer(R, prop, t, hp, bp, tp)
					}
				}
				if valdev >= 1 {
					var ls []leafRef
					setLeaves(t.Body, bp, &ls)
					hp, tp := hps[len(hps)-1], tps[0]
					for i, l := range ls {
						vals := valuesFor(l.n.Typ, t)
						if l.p.Route == 'p' && withSubMs {
							// texts a peer may send that are not what the library would print: a parsed Float
							// keeps its source text and puts it back on the wire (C01 / C17 only)
							vals = append(vals, nonCanonical[l.n.Typ]...)
						}
						old := l.p.Val
						for _, v := range vals[1:] {
							l.p.Val = v
							checkSer(R, prop, t, hp, bp, tp)
							if valdev >= 2 && countNodes(t.Body) <= 4 {
								for j := i + 1; j < len(ls); j++ {
									l2 := ls[j]
									old2 := l2.p.Val
									v2s := valuesFor(l2.n.Typ, t)
									for k := 1; k < len(v2s); k += 3 {
										l2.p.Val = v2s[k]
										checkSer(R, prop, t, hp, bp, tp)
									}
									l2.p.Val = old2
								}
							}
						}
						l.p.Val = old
					}
				}
			}
		}
	})
	R.Bounds["template_units_total"] = total
	R.CountN("template_units_run", int64(units))
	if sweeps && !stop {
		sweepLenAndSum(R, prop)
	}
}

// sweepLenAndSum: one String field's length is swept so that BodyLength takes every value in
// 1..1100 (all digit-count boundaries), and one byte is swept over all 255 non-SOH values so that
// the checksum takes every residue (in particular < 10 and < 100).
func sweepLenAndSum(R *vlib.Out, prop string) {
	for fi, fr := range framings {
		t := &tmpl{BS: fr[0], BL: fr[1], MT: fr[2], CS: fr[3], Begin: "FIX.4.4", MsgType: "0",
			Hdr: []*node{}, Body: []*node{{Kind: 'k', Tag: "58", Typ: "String"}}, Trl: []*node{}}
		base := len(t.MT) + 1 + 1 + 1 // "35=0|"
		i := 0
		for n := 0; n <= 1100; n++ {
			i++
			if !vlib.Mine(i + fi) {
				continue
			}
			var bp []*pop
			if n == 0 {
				bp = []*pop{{}}
			} else {
				bp = []*pop{{Set: true, Val: strings.Repeat("y", n), Route: 'c'}}
			}
			_ = base
			t.Unit = 2000000 + i + fi
			checkSer(R, prop, t, nil, bp, nil)
		}
		for b := 0; b < 256; b++ {
			i++
			if b == 1 || !vlib.Mine(i+fi) {
				continue
			}
			for _, pad := range []string{"", "pp", "ppppppppp"} {
				bp := []*pop{{Set: true, Val: pad + string([]byte{byte(b)}), Route: 'c'}}
				if b == 0 && pad == "" {
					bp[0].Val = "\x00" // still non-empty
				}
				t.Unit = 2000000 + i + fi
				checkSer(R, prop, t, nil, bp, nil)
			}
		}
	}
	// identical neighbours: group entries (top level and nested) that are byte-identical on the wire, followed by
	// a different one
	{
		t := &tmpl{BS: "8", BL: "9", MT: "35", CS: "10", Begin: "FIX.4.4", MsgType: "0", Hdr: []*node{},
			Body: []*node{{Kind: 'g', Tag: "146", Kids: []*node{{Kind: 'k', Tag: "55", Typ: "String"}, {Kind: 'k', Tag: "44", Typ: "Int"},
				{Kind: 'g', Tag: "711", Kids: []*node{{Kind: 'k', Tag: "311", Typ: "String"}, {Kind: 'k', Tag: "312", Typ: "Int"}}}}},
				{Kind: 'k', Tag: "58", Typ: "String"}}, Trl: []*node{}}
		leaf := func(v string) *pop { return &pop{Set: true, Val: v, Route: 'c'} }
		in := func(a, b string) []*pop { return []*pop{leaf(a), leaf(b)} }
		out := func(a, b string, nested ...[]*pop) []*pop {
			g := &pop{}
			if len(nested) > 0 {
				g = &pop{Entries: nested}
			}
			return []*pop{leaf(a), leaf(b), g}
		}
		cases := [][][]*pop{
			{out("A", "1"), out("A", "1"), out("B", "2")},
			{out("A", "1", in("x", "7"), in("x", "7")), out("B", "2", in("y", "8"))},
			{out("A", "1", in("x", "7"), in("x", "7"), in("z", "9")), out("A", "1", in("x", "7"), in("x", "7"), in("z", "9")), out("B", "2")},
			{out("A", "1", in("x", "7")), out("A", "1", in("x", "7")), out("A", "1", in("x", "7"))},
		}
		for ci, entries := range cases {
			if !vlib.Mine(ci) {
				continue
			}
			t.Unit = 4000000 + ci
			checkSer(R, prop, t, nil, []*pop{{Entries: entries}, leaf("after")}, nil)
		}
		R.Bounds["identical_neighbour_entries"] = len(cases)
	}
	// many entries: a group with 13, 30 and 70 entries whose optional nested groups are all absent, and one with
	// a populated nested group in every entry (a counter that is meant to track nesting but counts look-ups
	// overflows its limit on a flat message)
	{
		kids := []*node{{Kind: 'k', Tag: "55", Typ: "String"}}
		for _, gt := range []string{"711", "555", "454", "864", "146"} {
			kids = append(kids, &node{Kind: 'g', Tag: gt, Kids: []*node{{Kind: 'k', Tag: "3" + gt, Typ: "Int"}}})
		}
		t := &tmpl{BS: "8", BL: "9", MT: "35", CS: "10", Begin: "FIX.4.4", MsgType: "0", Hdr: []*node{},
			Body: []*node{{Kind: 'g', Tag: "268", Kids: kids}}, Trl: []*node{}}
		ci := 0
		for _, n := range []int{13, 30, 70} {
			for _, nested := range []bool{false, true} {
				ci++
				if !vlib.Mine(ci) {
					continue
				}
				var entries [][]*pop
				for e := 0; e < n; e++ {
					ent := []*pop{{Set: true, Val: "s" + strconv.Itoa(e), Route: 'c'}}
					for k := 0; k < 5; k++ {
						if nested && k == e%5 {
							ent = append(ent, &pop{Entries: [][]*pop{{{Set: true, Val: strconv.Itoa(e), Route: 'c'}}}})
						} else {
							ent = append(ent, &pop{})
						}
					}
					entries = append(entries, ent)
				}
				t.Unit = 5000000 + ci
				checkSer(R, prop, t, nil, []*pop{{Entries: entries}}, nil)
			}
		}
		R.Bounds["many_entries"] = "13, 30, 70 entries x 5 optional nested groups (absent / one populated per entry)"
	}
	// float sweep: results of ordinary arithmetic need 16 or 17 significant digits (i*0.1, i/7, i*1.1, prices with
	// an accumulated error); a hand-written fast path of the parser is wrong for some of them by one unit in the
	// last place
	{
		t := &tmpl{BS: "8", BL: "9", MT: "35", CS: "10", Begin: "FIX.4.4", MsgType: "0",
			Hdr: []*node{}, Body: []*node{{Kind: 'k', Tag: "44", Typ: "Float"}}, Trl: []*node{}}
		i := 0
		acc := 924.649
		for k := 1; k <= 1500; k++ {
			acc += 1e-13 * float64(k%7)
			for _, f := range []float64{float64(k) * 0.1, float64(k) / 7.0, float64(k) * 1.1, acc, -float64(k) / 3.0, 1e15 + float64(k)/10, float64(k) * 1e-9 / 3} {
				i++
				if !vlib.Mine(i) {
					continue
				}
				t.Unit = 3000000 + i
				checkSer(R, prop, t, nil, []*pop{{Set: true, Val: ff(f), Route: 'c'}}, nil)
			}
		}
		R.Bounds["float_sweep"] = "10500 values of i*0.1, i/7, i*1.1, an accumulating price, -i/3, 1e15+i/10, i*1e-9/3 (i <= 1500)"
	}
	R.Bounds["bodylength_sweep"] = "0..1100 payload bytes, both framing-tag sets"
	R.Bounds["checksum_sweep"] = "one byte over all 255 non-SOH values × 3 paddings"
}
