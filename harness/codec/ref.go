package main

// Reference model of the tag=value codec, written independently of the library: an encoder from
// field lists, a tokenizer, the byte-level integrity oracle and the expected field list of a
// (template, population).

import (
	"bytes"
	"fmt"
	"strconv"
)

type field struct{ Tag, Val string }

// refFields yields the fields a (template part, population) must put on the wire, in order.
func refFields(f []*node, ps []*pop, out *[]field) {
	for i, t := range f {
		switch t.Kind {
		case 'k':
			if ps[i].Set {
				*out = append(*out, field{t.Tag, wireText(ps[i].Val)})
			}
		case 'c':
			refFields(t.Kids, ps[i].Kids, out)
		case 'g':
			if len(ps[i].Entries) > 0 {
				*out = append(*out, field{t.Tag, strconv.Itoa(len(ps[i].Entries))})
				for _, e := range ps[i].Entries {
					refFields(t.Kids, e, out)
				}
			}
		}
	}
}

// encode builds a framed message from the inner fields (everything between BodyLength and CheckSum).
func encode(bsTag, begin, blTag, csTag string, inner []field) []byte {
	var body bytes.Buffer
	for _, f := range inner {
		body.WriteString(f.Tag)
		body.WriteByte('=')
		body.WriteString(f.Val)
		body.WriteByte(1)
	}
	var m bytes.Buffer
	m.WriteString(bsTag + "=" + begin + "\x01" + blTag + "=" + strconv.Itoa(body.Len()) + "\x01")
	m.Write(body.Bytes())
	sum := 0
	for _, c := range m.Bytes() {
		sum += int(c)
	}
	m.WriteString(fmt.Sprintf("%s=%03d\x01", csTag, sum%256))
	return m.Bytes()
}

// tokenize splits a message into fields; ok=false if it does not end with SOH or a segment lacks '='.
func tokenize(b []byte) ([]field, bool) {
	if len(b) == 0 || b[len(b)-1] != 1 {
		return nil, false
	}
	var out []field
	for _, seg := range bytes.Split(b[:len(b)-1], []byte{1}) {
		i := bytes.IndexByte(seg, '=')
		if i < 0 {
			return nil, false
		}
		out = append(out, field{string(seg[:i]), string(seg[i+1:])})
	}
	return out, true
}

// integrity is the byte-level oracle of C01 (and the strict validator of C03).  It looks only at
// the first three SOH-delimited segments and the last one, so it is indifferent to what lies in
// between.  It returns "" when the message starts with the bs, bl, mt fields in that order, ends
// with the cs field followed by SOH, the declared length equals the byte count from after the bl
// field's SOH through the SOH before the cs field, and the checksum is the three-digit byte sum
// mod 256 of everything before the cs field.
func integrity(b []byte, bsTag, blTag, mtTag, csTag string, needMsgType bool) string {
	if len(b) == 0 || b[len(b)-1] != 1 {
		return "no-trailing-delimiter"
	}
	seg := func(from int) (tag, val string, next int, ok bool) {
		if from >= len(b) {
			return "", "", 0, false
		}
		e := bytes.IndexByte(b[from:], 1)
		if e < 0 {
			return "", "", 0, false
		}
		s := b[from : from+e]
		q := bytes.IndexByte(s, '=')
		if q < 0 {
			return "", "", 0, false
		}
		return string(s[:q]), string(s[q+1:]), from + e + 1, true
	}
	t0, _, p1, ok := seg(0)
	if !ok || t0 != bsTag {
		return "framing-order"
	}
	t1, decl, afterLen, ok := seg(p1)
	if !ok || t1 != blTag {
		return "framing-order"
	}
	if needMsgType {
		t2, _, _, ok := seg(afterLen)
		if !ok || t2 != mtTag {
			return "framing-order"
		}
	}
	// last segment
	ls := bytes.LastIndexByte(b[:len(b)-1], 1)
	if ls < 0 {
		return "too-few-fields"
	}
	csStart := ls + 1
	tc, cval, _, ok := seg(csStart)
	if !ok || tc != csTag {
		return "no-trailing-checksum"
	}
	if csStart < afterLen {
		return "overlap"
	}
	if !allDigits(decl) {
		return "bodylength-not-numeric"
	}
	if decl != strconv.Itoa(csStart-afterLen) {
		return "bodylength"
	}
	sum := 0
	for _, c := range b[:csStart] {
		sum += int(c)
	}
	if cval != fmt.Sprintf("%03d", sum%256) {
		return "checksum"
	}
	return ""
}

func allDigits(s string) bool {
	if s == "" {
		return false
	}
	for i := 0; i < len(s); i++ {
		if s[i] < '0' || s[i] > '9' {
			return false
		}
	}
	return true
}

// lookup is the reference of fix.ValueByTag: value of the first field whose whole tag equals tag.
func lookup(fs []field, tag string) (string, bool) {
	for _, f := range fs {
		if f.Tag == tag {
			return f.Val, true
		}
	}
	return "", false
}

func fieldsStr(fs []field) string {
	var b bytes.Buffer
	for _, f := range fs {
		b.WriteString(f.Tag + "=" + f.Val + "|")
	}
	return b.String()
}
