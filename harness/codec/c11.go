package main

// C11 — no byte string can crash or hang the decoder.
//  (i)  all byte strings of length <= L over an 8-symbol alphabet, exact capacity, against several
//       message types (incl. nested repeating groups), strict and non-strict, plus ValueByTag;
//  (ii) all framed token strings of <= K tokens: arbitrary token soup wrapped with a correct
//       BodyLength and CheckSum so that it passes the integrity check and reaches field and group
//       parsing.
// Oracle: no panic; every call returns (a watchdog aborts the worker and reports a hang when a
// single call makes no progress for 10 s).

import (
	"strings"
	"fmt"
	"os"
	"strconv"
	"sync/atomic"
	"time"

	"github.com/b2broker/simplefix-go/fix"
	"vlib"
)

var c11Progress int64
var c11Current atomic.Value // string
var c11Target0 atomic.Value // string: target being parsed

type c11Replay struct {
	Target string `json:"target"`
	Input  []byte `json:"input"`
	Tag    string `json:"tag,omitempty"`
}

type c11Target struct {
	name string
	mk   func() *fix.Message
	// tokens used by the framed enumeration
	tokens []string
}

func c11Targets() []c11Target {
	g3 := &tmpl{BS: "8", BL: "9", MT: "35", CS: "10", Begin: "FIX.4.4", MsgType: "X", Hdr: []*node{{Kind: 'k', Tag: "34", Typ: "Int"}},
		Body: []*node{{Kind: 'g', Tag: "146", Kids: []*node{{Kind: 'k', Tag: "55", Typ: "String"}, {Kind: 'g', Tag: "14", Kids: []*node{{Kind: 'k', Tag: "46", Typ: "Int"}, {Kind: 'g', Tag: "1", Kids: []*node{{Kind: 'k', Tag: "11", Typ: "Bool"}}}}}}}},
		Trl: []*node{}}
	flat := &tmpl{BS: "8", BL: "9", MT: "35", CS: "10", Begin: "FIX.4.4", MsgType: "X", Hdr: []*node{},
		Body: []*node{{Kind: 'k', Tag: "1", Typ: "Int"}, {Kind: 'k', Tag: "10", Typ: "Float"}, {Kind: 'k', Tag: "100", Typ: "Time"}, {Kind: 'c', Kids: []*node{{Kind: 'k', Tag: "3", Typ: "Uint"}}}}, Trl: []*node{}}
	return []c11Target{
		{"Heartbeat", genCtors["Heartbeat"], []string{"112", "34"}},
		{"Logon", genCtors["Logon"], []string{"384", "372", "385", "98", "108"}},
		{"MarketDataRequest", genCtors["MarketDataRequest"], []string{"146", "55", "711", "311", "267", "269", "457", "458"}},
		{"nested3", func() *fix.Message { return g3.message(emptyPops(g3.Hdr), emptyPops(g3.Body), nil) }, []string{"146", "55", "14", "46", "1", "11"}},
		{"flat-typed", func() *fix.Message { return flat.message(nil, emptyPops(flat.Body), nil) }, []string{"1", "10", "100", "3"}},
	}
}

func c11One(R *vlib.Out, tg c11Target, in []byte) {
	R.Eval()
	c11Target0.Store(tg.name)
	c11Current.Store(string(in))
	vlib.Breadcrumb(tg.name, in)
	atomic.AddInt64(&c11Progress, 1)
	for _, strict := range []bool{true, false} {
		data := make([]byte, len(in))
		copy(data, in)
		err := safeUnmarshal(tg.mk(), data, strict)
		if err != nil && len(err.Error()) >= 5 && err.Error()[:5] == "PANIC" {
			R.Violate(c11sig(in, err.Error()), fmt.Sprintf("Unmarshal(%s, %q, strict=%v): %v", tg.name, in, strict, err), c11Replay{tg.name, in, ""})
			return
		}
		if err == nil {
			R.Outcome("accepted")
		} else {
			R.Outcome("error")
		}
	}
}

func c11sig(in []byte, e string) string {
	if len(in) < 4 {
		return "panic:scan-short-input"
	}
	kind := "other"
	switch {
	case contains(e, "slice bounds"):
		kind = "slice-bounds"
	case contains(e, "index out of range"):
		kind = "index-out-of-range"
	case contains(e, "nil pointer"):
		kind = "nil-pointer"
	case contains(e, "interface conversion"):
		kind = "interface-conversion"
	}
	return "panic:" + kind
}

func contains(s, sub string) bool {
	for i := 0; i+len(sub) <= len(s); i++ {
		if s[i:i+len(sub)] == sub {
			return true
		}
	}
	return false
}

func c11Lookup(R *vlib.Out, in []byte, tag string) {
	R.Eval()
	c11Target0.Store("ValueByTag:" + tag)
	c11Current.Store(string(in))
	atomic.AddInt64(&c11Progress, 1)
	data := make([]byte, len(in))
	copy(data, in)
	_, _, pan := safeValueByTag(data, tag)
	if pan != "" {
		R.Violate("ValueByTag-panic", fmt.Sprintf("ValueByTag(%q, %q): %s", in, tag, pan), c11Replay{"", in, tag})
	}
}

// rssMiB reads the resident set size of this process.
func rssMiB() int64 {
	b, err := os.ReadFile("/proc/self/statm")
	if err != nil {
		return 0
	}
	var size, rss int64
	fmt.Sscanf(string(b), "%d %d", &size, &rss)
	return rss * 4096 >> 20
}

func startWatchdog(R *vlib.Out) {
	// memory watchdog: a single parse that makes the process grow past 2 GiB is reported as a
	// resource-exhaustion violation with the input at hand (a peer must not be able to do that)
	go func() {
		for {
			time.Sleep(50 * time.Millisecond)
			if rssMiB() > 2048 {
				cur, _ := c11Current.Load().(string)
				tgt, _ := c11Target0.Load().(string)
				R.Violate("memory-blowup", fmt.Sprintf("resident memory exceeded 2 GiB in %s on %s", tgt, strconv.Quote(cur)), c11Replay{tgt, []byte(cur), ""})
				R.Finish()
				os.Exit(0)
			}
		}
	}()
	go func() {
		last := int64(-1)
		stuck := 0
		for {
			time.Sleep(2 * time.Second)
			p := atomic.LoadInt64(&c11Progress)
			if p == last && p > 0 {
				stuck++
			} else {
				stuck = 0
			}
			last = p
			if stuck >= 5 {
				cur, _ := c11Current.Load().(string)
				tgt, _ := c11Target0.Load().(string)
				R.Violate("hang", "no progress for 10 s in "+tgt+" on "+strconv.Quote(cur), c11Replay{tgt, []byte(cur), ""})
				R.Finish()
				os.Exit(0)
			}
		}
	}()
}

var c11Alphabet = []byte{'8', '9', '1', '0', '3', '=', 1, 'A'}

func enumC11(R *vlib.Out, maxLen, maxTok int) {
	startWatchdog(R)
	targets := c11Targets()
	R.Bounds["max_len"] = maxLen
	R.Bounds["max_tokens"] = maxTok
	R.Bounds["alphabet"] = "8 9 1 0 3 = SOH A"
	// (i) all byte strings of length <= maxLen
	buf := make([]byte, 0, maxLen)
	unit := 0
	var rec func(depth int)
	stop := false
	rec = func(depth int) {
		if stop {
			return
		}
		if len(buf) <= maxLen {
			mine := true
			if len(buf) >= 2 {
				mine = vlib.Mine(int(idx(buf[0]))*8 + int(idx(buf[1])))
			} else {
				mine = *vlib.Shard == 0
			}
			if mine {
				unit++
				if unit%4096 == 0 && vlib.Expired() {
					R.Cap("deadline")
					stop = true
					return
				}
				c11Current.Store(string(buf))
				for _, tg := range targets {
					c11One(R, tg, buf)
				}
				for _, tag := range []string{"8", "10", "35", "384", "1"} {
					c11Lookup(R, buf, tag)
				}
				R.ClassD(fmt.Sprintf("len%d/%d", len(buf), classOf(buf)))
			}
		}
		if len(buf) == maxLen {
			return
		}
		for _, c := range c11Alphabet {
			buf = append(buf, c)
			rec(depth + 1)
			buf = buf[:len(buf)-1]
		}
	}
	rec(0)
	if stop {
		return
	}
	// (ii) framed token strings
	for ti, tg := range targets {
		toks := append([]string{"\x01", "=", "35", "34", "10", "0", "1", "2", "A", "-1", "9223372036854775807", "4611686018427387904", "99999999"}, tg.tokens...)
		seq := make([]int, 0, maxTok)
		var rec2 func()
		n := 0
		rec2 = func() {
			if stop {
				return
			}
			n++
			if vlib.Mine(n + ti) {
				if n%2048 == 0 && vlib.Expired() {
					R.Cap("deadline")
					stop = true
					return
				}
				body := ""
				for _, k := range seq {
					body += toks[k]
				}
				msg := frame(body)
				c11Current.Store(string(msg))
				c11One(R, tg, msg)
				for _, tag := range []string{"35", "34", "10", "146"} {
					c11Lookup(R, msg, tag)
				}
				R.ClassD(fmt.Sprintf("framed/%s/%d/%d", tg.name, len(seq), n%64))
				if len(seq) == maxTok {
					R.Sample(5, map[string]string{"target": tg.name, "framed": vlib.Show(msg)})
				}
			}
			if len(seq) == maxTok {
				return
			}
			for k := range toks {
				seq = append(seq, k)
				rec2()
				seq = seq[:len(seq)-1]
			}
		}
		rec2()
	}
	if !stop {
		enumMisplaced(R, maxTok-2, &stop)
	}
	if !stop {
		enumFramingOrders(R, &stop)
	}
	if !stop {
		enumTypedValues(R, &stop)
	}
}

// c11AllTargets: the targets of families (i)-(iv) plus the remaining generated message types (family (v), replay).
func c11AllTargets() []c11Target {
	ts := c11Targets()
	have := map[string]bool{}
	for _, t := range ts {
		have[t.name] = true
	}
	for _, n := range genNames {
		if !have[n] {
			ts = append(ts, c11Target{n, genCtors[n], nil})
		}
	}
	return ts
}

var c11OddValues = []string{"", " ", "Y", "N", "y", "YY", "-", "+", ".", "-.", "1e5", "0x1F", "1_000", "NaN", "Inf", "-0", "0", "1",
	"99999999999999999999", "-9223372036854775808", "20240101", "20240101-25:61:61", "20240101-10:00:00", "20240101-10:00:00.123456789",
	"\x00", "=", "\xc3\xa9", "\xff", strings.Repeat("9", 300)}

// enumTypedValues is family (v): every field of every template (header, body, trailer; in components and in
// group entries at every depth), one at a time, carrying every value of a set of odd values - empty, a lone
// sign, one byte, over-long digits, half a timestamp - inside the smallest group context that makes the decoder
// reach it, correctly framed.  Group counts get the same values.  (Each value type has its own FromBytes; a
// message a peer sends decides which of them sees which bytes.)
func enumTypedValues(R *vlib.Out, stop *bool) {
	n := 0
	for ti, tg := range c11AllTargets() {
		m := tg.mk()
		mt := m.MsgType()
		try := func(kind, typ, body string, vi int) {
			n++
			if *stop || !vlib.Mine(n+ti) {
				return
			}
			if n%512 == 0 && vlib.Expired() {
				R.Cap("deadline")
				*stop = true
				return
			}
			msg := frame("35=" + mt + "\x01" + body)
			c11One(R, tg, msg)
			R.ClassD(fmt.Sprintf("typed-value/%s/%s/%s/%d", tg.name, kind, typ, vi))
			if vi == 0 {
				R.Sample(6, map[string]string{"target": tg.name, "typed_value": vlib.Show(msg)})
			}
		}
		var firstLeaf func(ns []*node) *node
		firstLeaf = func(ns []*node) *node {
			for _, x := range ns {
				switch x.Kind {
				case 'k':
					return x
				case 'c':
					if f := firstLeaf(x.Kids); f != nil {
						return f
					}
				case 'g':
					return nil
				}
			}
			return nil
		}
		var walk func(ns []*node, ctx string, first *node)
		walk = func(ns []*node, ctx string, first *node) {
			for _, x := range ns {
				switch x.Kind {
				case 'k':
					for vi, v := range c11OddValues {
						if first != nil && first != x {
							try("field", x.Typ, ctx+first.Tag+"=1\x01"+x.Tag+"="+v+"\x01", vi)
							// the same in the second of two entries
							try("field-2nd-entry", x.Typ, strings.Replace(ctx, "=1\x01", "=2\x01", 1)+first.Tag+"=1\x01"+first.Tag+"=1\x01"+x.Tag+"="+v+"\x01", vi)
						} else {
							try("field", x.Typ, ctx+x.Tag+"="+v+"\x01", vi)
						}
					}
				case 'c':
					walk(x.Kids, ctx, first)
				case 'g':
					f := firstLeaf(x.Kids)
					pre := ctx
					if first != nil {
						pre += first.Tag + "=1\x01"
					}
					if f != nil {
						for vi, v := range c11OddValues {
							try("count", "group", pre+x.Tag+"="+v+"\x01"+f.Tag+"=1\x01", vi)
						}
					}
					walk(x.Kids, pre+x.Tag+"=1\x01", f)
				}
			}
		}
		walk(derive(m.Header().Items()), "", nil)
		walk(derive(m.Body()), "", nil)
		walk(derive(m.Trailer().Items()), "", nil)
	}
}

// enumFramingOrders is family (iv): the framing fields themselves in every order and with impossible
// values - BeginString, BodyLength (negative, zero, too small, too large, right), MsgType, MsgSeqNum and
// CheckSum (wrong, right) as the first, a middle or the last field, present once or not at all, the
// string ending with or without a delimiter.  Every ordered selection of up to four of the fields, and
// each field alone.  (The decoder locates these fields one by one; code that assumes "the CheckSum
// field has a delimiter in front of it" or "BodyLength is not negative" meets its counter-example here.)
func enumFramingOrders(R *vlib.Out, stop *bool) {
	targets := c11Targets()
	fieldSets := [][]string{
		{"8=FIX.4.4"},
		{"9=-3", "9=-1", "9=0", "9=5", "9=61", "9=99999999999999999999", "9=", "9"},
		{"35=0", "35=A", "35="},
		{"34=1", "34=x"},
		{"10=000", "10=", "10", "10=@@@"},
	}
	var toks []string
	for _, fs := range fieldSets {
		toks = append(toks, fs...)
	}
	n := 0
	try := func(tg c11Target, ti int, seq []string) {
		for _, end := range []string{"\x01", ""} {
			n++
			if n%512 == 0 && vlib.Expired() {
				R.Cap("deadline")
				*stop = true
				return
			}
			if !vlib.Mine(n + ti) {
				continue
			}
			body := strings.Join(seq, "\x01") + end
			variants := [][]byte{[]byte(body)}
			// with the right checksum for whatever precedes a trailing CheckSum field, and with the right length
			if fixed := c11FixSum([]byte(body)); fixed != nil {
				variants = append(variants, fixed)
			}
			for _, msg := range variants {
				c11One(R, tg, msg)
				for _, tag := range []string{"8", "9", "35", "34", "10"} {
					c11Lookup(R, msg, tag)
				}
			}
			R.ClassD(fmt.Sprintf("framing-order/%s/%d/%d", tg.name, len(seq), n%128))
			if len(seq) == 3 {
				R.Sample(4, map[string]string{"target": tg.name, "framing_order": vlib.Show([]byte(body))})
			}
		}
	}
	for ti, tg := range targets {
		if ti > 1 {
			break // Heartbeat and Logon: framing is the same for every type
		}
		var rec func(seq []string, used uint64)
		rec = func(seq []string, used uint64) {
			if *stop {
				return
			}
			if len(seq) > 0 {
				try(tg, ti, seq)
			}
			if len(seq) == 4 {
				return
			}
			for k, t := range toks {
				if used&(1<<uint(k)) != 0 {
					continue
				}
				rec(append(append([]string{}, seq...), t), used|1<<uint(k))
			}
		}
		rec(nil, 0)
	}
}

// c11FixSum replaces the value of a trailing "10=..." field by the checksum of what precedes it (nil if
// the string does not end with such a field).
func c11FixSum(b []byte) []byte {
	s := string(b)
	i := strings.LastIndex(s, "10=")
	if i < 0 || (i > 0 && s[i-1] != 1) {
		return nil
	}
	rest := s[i+3:]
	if strings.Contains(strings.TrimSuffix(rest, "\x01"), "\x01") {
		return nil
	}
	sum := 0
	for _, c := range []byte(s[:i]) {
		sum += int(c)
	}
	end := ""
	if strings.HasSuffix(rest, "\x01") {
		end = "\x01"
	}
	return []byte(s[:i] + fmt.Sprintf("10=%03d", sum%256) + end)
}

// enumMisplaced is family (iii): byte strings that pass the library's integrity check although the
// CheckSum field is not the last field.  validateRaw locates BeginString, BodyLength and CheckSum by
// their first occurrence and assumes the last len("10=xyz")+1 = 7 bytes are the CheckSum field, so
// "8=FIX.4.4|9=n|<body>10=SSS|<7 arbitrary bytes>" passes when n and SSS are chosen accordingly.
// The harness solves for SSS (self-referential: the field lies inside the summed region) by trying
// filler characters.  Every such string reaches field and group parsing with an arbitrary tail, e.g.
// a group count field that nothing follows.
func enumMisplaced(R *vlib.Out, maxTok int, stop *bool) {
	targets := c11Targets()
	n := 0
	for ti, tg := range targets {
		toks := append([]string{"\x01", "=", "35=X\x01", "34", "0", "1", "2"}, tg.tokens...)
		tails := []string{"=======", "\x01\x01\x01\x01\x01\x01\x01", "1234567", "35=AAA\x01", "\x0134=12\x01", "10=000\x01"}
		pad := func(t string) {
			for len(t) < 7 {
				t = "\x01" + t
			}
			if len(t) == 7 {
				tails = append(tails, t)
			}
		}
		for _, t := range tg.tokens {
			pad(t + "=1\x01")   // a count field that nothing follows
			pad(t + "=2")       // ... without even a delimiter
			pad(t + "=\x01")    // empty count
			pad(t + "\x01")     // tag without '='
			pad("1" + t + "=1") // longer tag ending in the count tag
		}
		seq := make([]int, 0, maxTok)
		var rec func()
		rec = func() {
			if *stop {
				return
			}
			body := ""
			for _, k := range seq {
				body += toks[k]
			}
			for _, tail := range tails {
				n++
				if n%1024 == 0 && vlib.Expired() {
					R.Cap("deadline")
					*stop = true
					return
				}
				if !vlib.Mine(n + ti) {
					continue
				}
				if false {
					R.Cap("deadline")
					*stop = true
					return
				}
				msg := frameMisplaced(body, tail)
				if msg == nil {
					R.Count("misplaced:no-solution")
					continue
				}
				c11Current.Store(string(msg))
				c11One(R, tg, msg)
				R.ClassD(fmt.Sprintf("misplaced/%s/%d/%d", tg.name, len(seq), n%256))
				R.Sample(6, map[string]string{"target": tg.name, "misplaced_checksum": vlib.Show(msg)})
			}
			if len(seq) == maxTok {
				return
			}
			for k := range toks {
				seq = append(seq, k)
				rec()
				seq = seq[:len(seq)-1]
			}
		}
		rec()
	}
}

// frameMisplaced returns "8=FIX.4.4|9=n|<body>[58=c|]10=SSS|<tail>" accepted by the stated rule, or nil.
func frameMisplaced(body, tail string) []byte {
	if len(body) > 0 && body[len(body)-1] != 1 {
		body += "\x01"
	}
	for _, filler := range []string{"", "58=a\x01", "58=b\x01", "58=c\x01", "58=d\x01", "58=e\x01", "58=f\x01", "58=g\x01", "58=h\x01", "58=ab\x01"} {
		b := body + filler
		// declared length: bytes after the BodyLength field through the byte before the last 7 bytes... the
		// library measures len(d) - offset - 7 where the last 7 bytes stand for the CheckSum field
		inner := b + "10=SSS\x01" + tail
		n := len(inner) - 7
		head := "8=FIX.4.4\x019=" + strconv.Itoa(n) + "\x01"
		for s := 0; s < 256; s++ {
			d := []byte(head + b + fmt.Sprintf("10=%03d\x01", s) + tail)
			sum := 1
			for _, c := range d[:len(d)-8] {
				sum += int(c)
			}
			if sum%256 == s {
				return d
			}
		}
	}
	return nil
}

func idx(c byte) int {
	for i, a := range c11Alphabet {
		if a == c {
			return i
		}
	}
	return 0
}

func classOf(b []byte) int {
	h := 0
	for _, c := range b {
		h = h*8 + idx(c)
	}
	return h
}

// frame wraps arbitrary body bytes with a correct BodyLength and CheckSum: "8=FIX.4.4|9=<n>|<body>10=<sum>|"
func frame(body string) []byte {
	if len(body) == 0 || body[len(body)-1] != 1 {
		body += "\x01" // the CheckSum field must start at a field boundary to be found at all
	}
	head := "8=FIX.4.4\x019=" + strconv.Itoa(len(body)) + "\x01"
	sum := 0
	for _, c := range []byte(head + body) {
		sum += int(c)
	}
	return []byte(fmt.Sprintf("%s%s10=%03d\x01", head, body, sum%256))
}

func replayC11(R *vlib.Out) {
	var rp c11Replay
	vlib.LoadReplay(&rp)
	startWatchdog(R)
	if rp.Tag != "" {
		c11Lookup(R, rp.Input, rp.Tag)
		return
	}
	if len(rp.Target) > 11 && rp.Target[:11] == "ValueByTag:" {
		c11Lookup(R, rp.Input, rp.Target[11:])
		return
	}
	for _, tg := range c11AllTargets() {
		if tg.name == rp.Target {
			c11One(R, tg, rp.Input)
		}
	}
}
