package main

// Generated tests/fix44 message types: the template is derived by walking Message.Items() of a
// fresh generated message; populations are written into a fresh generated message by a walker,
// so the library objects under test are the generated ones (nested groups, components, ~30-field
// header), while the expected wire image still comes from the harness' reference.

import (
	"fmt"

	"github.com/b2broker/simplefix-go/fix"
	fixgen "github.com/b2broker/simplefix-go/tests/fix44"
	"vlib"
)

var genCtors = map[string]func() *fix.Message{
	"Heartbeat":                      func() *fix.Message { return fixgen.NewHeartbeat().Message },
	"Logon":                          func() *fix.Message { return fixgen.NewLogon().Message },
	"Logout":                         func() *fix.Message { return fixgen.NewLogout().Message },
	"Reject":                         func() *fix.Message { return fixgen.NewReject().Message },
	"ResendRequest":                  func() *fix.Message { return fixgen.NewResendRequest().Message },
	"SequenceReset":                  func() *fix.Message { return fixgen.NewSequenceReset().Message },
	"TestRequest":                    func() *fix.Message { return fixgen.NewTestRequest().Message },
	"MarketDataRequest":              func() *fix.Message { return fixgen.NewMarketDataRequest().Message },
	"MarketDataRequestReject":        func() *fix.Message { return fixgen.NewMarketDataRequestReject().Message },
	"MarketDataIncrementalRefresh":   func() *fix.Message { return fixgen.NewMarketDataIncrementalRefresh().Message },
	"MarketDataSnapshotFullRefresh":  func() *fix.Message { return fixgen.NewMarketDataSnapshotFullRefresh().Message },
}

var genNames = []string{"Heartbeat", "Logon", "Logout", "Reject", "ResendRequest", "SequenceReset", "TestRequest",
	"MarketDataRequest", "MarketDataRequestReject", "MarketDataIncrementalRefresh", "MarketDataSnapshotFullRefresh"}

func typOf(v fix.Value) string {
	switch v.(type) {
	case *fix.String:
		return "String"
	case *fix.Int:
		return "Int"
	case *fix.Uint:
		return "Uint"
	case *fix.Float:
		return "Float"
	case *fix.Time:
		return "Time"
	case *fix.Bool:
		return "Bool"
	}
	return "Raw"
}

func derive(items fix.Items) []*node {
	var out []*node
	for _, it := range items {
		switch x := it.(type) {
		case *fix.KeyValue:
			out = append(out, &node{Kind: 'k', Tag: x.Key, Typ: typOf(x.Value)})
		case *fix.Component:
			out = append(out, &node{Kind: 'c', Kids: derive(x.Items())})
		case *fix.Group:
			out = append(out, &node{Kind: 'g', Tag: x.NoTag(), Kids: derive(x.AsTemplate())})
		default:
			panic(fmt.Sprintf("unexpected item %T", it))
		}
	}
	return out
}

func deriveTmpl(name string) *tmpl {
	m := genCtors[name]()
	return &tmpl{BS: m.BeginStringTag(), BL: m.BodyLengthTag(), MT: m.Items()[2].(*fix.KeyValue).Key, CS: m.CheckSumTag(),
		Begin: m.BeginString().Value.String(), MsgType: m.MsgType(), Gen: name,
		Hdr: derive(m.Header().Items()), Body: derive(m.Body()), Trl: derive(m.Trailer().Items())}
}

// populate writes a population into library items (same shape as f).
func populate(f []*node, ps []*pop, items fix.Items) {
	for i, t := range f {
		switch t.Kind {
		case 'k':
			if ps[i].Set {
				kv := items[i].(*fix.KeyValue)
				switch ps[i].Route {
				case 'c':
					kv.Set(mkVal(t.Typ, ps[i]))
				case 's':
					if err := kv.Value.Set(decode(typOf(kv.Value), ps[i].Val)); err != nil {
						panic(err)
					}
				default:
					if err := kv.FromBytes([]byte(wireText(ps[i].Val))); err != nil {
						panic(err)
					}
				}
			}
		case 'c':
			populate(t.Kids, ps[i].Kids, items[i].(*fix.Component).Items())
		case 'g':
			g := items[i].(*fix.Group)
			for _, e := range ps[i].Entries {
				entry := g.AsTemplate()
				populate(t.Kids, e, entry)
				g.AddEntry(entry)
			}
		}
	}
}

func (t *tmpl) genMessage(hp, bp, tp []*pop) *fix.Message {
	m := genCtors[t.Gen]()
	populate(t.Hdr, hp, m.Header().Items())
	populate(t.Body, bp, m.Body())
	populate(t.Trl, tp, m.Trailer().Items())
	return m
}

// popSel builds the population selected by pred over the leaves in depth-first order; groups get
// `entries` entries when any leaf below is selected (the entry's first field is always set).
func popSel(f []*node, pred func(i int) bool, idx *int, entries int, route byte) ([]*pop, bool) {
	var out []*pop
	any := false
	for _, t := range f {
		switch t.Kind {
		case 'k':
			p := &pop{}
			if pred(*idx) {
				p.Set, p.Val, p.Route = true, defVal[t.Typ], route
				any = true
			}
			*idx++
			out = append(out, p)
		case 'c':
			k, a := popSel(t.Kids, pred, idx, entries, route)
			any = any || a
			out = append(out, &pop{Kids: k})
		case 'g':
			start := *idx
			e, a := popSel(t.Kids, pred, idx, entries, route)
			p := &pop{}
			if a {
				any = true
				for k := 0; k < entries; k++ {
					*idx = start
					ek, _ := popSel(t.Kids, pred, idx, entries, route)
					forceFirst(t.Kids, ek, route)
					p.Entries = append(p.Entries, ek)
				}
			}
			_ = e
			out = append(out, p)
		}
	}
	return out, any
}

// forceFirst populates the first field of a group entry (descending into a leading component).
func forceFirst(f []*node, ps []*pop, route byte) {
	if len(f) == 0 {
		return
	}
	switch f[0].Kind {
	case 'k':
		if !ps[0].Set {
			ps[0].Set, ps[0].Val, ps[0].Route = true, defVal[f[0].Typ], route
		}
	case 'c':
		forceFirst(f[0].Kids, ps[0].Kids, route)
	}
}

func countLeaves(f []*node) int {
	n := 0
	for _, t := range f {
		if t.Kind == 'k' {
			n++
		} else {
			n += countLeaves(t.Kids)
		}
	}
	return n
}


func enumGenerated(R *vlib.Out, prop string) {
	unit := 0
	for _, name := range genNames {
		t := deriveTmpl(name)
		nh, nb, nt := countLeaves(t.Hdr), countLeaves(t.Body), countLeaves(t.Trl)
		total := nh + nb + nt
		for _, route := range []byte{'s', 'p', 'c'} {
			var preds []func(int) bool
			preds = append(preds, func(int) bool { return false }, func(int) bool { return true },
				func(i int) bool { return i%2 == 0 }, func(i int) bool { return i%2 == 1 }, func(i int) bool { return i%3 == 0 })
			for k := 0; k < total; k++ {
				k := k
				preds = append(preds, func(i int) bool { return i == k })
			}
			for pi, pred := range preds {
				for _, entries := range []int{1, 2} {
					if entries == 2 && pi >= 5 && pi%4 != 0 {
						continue
					}
					unit++
					if !vlib.Mine(unit) {
						continue
					}
					if vlib.Expired() {
						R.Cap("deadline")
						return
					}
					idx := 0
					hp, _ := popSel(t.Hdr, pred, &idx, entries, route)
					bp, _ := popSel(t.Body, pred, &idx, entries, route)
					tp, _ := popSel(t.Trl, pred, &idx, entries, route)
					t.Unit = 1000000 + unit
					checkSer(R, prop, t, hp, bp, tp)
				}
			}
		}
	}
	R.Bounds["generated_message_types"] = len(genNames)
}
