package main

// Serialisation-side properties over the enumerated message space:
//   C01 framing order, BodyLength, CheckSum          (oracle: bytes alone)
//   C17 exactly the populated fields, once, in order  (oracle: reference field list)
//   C02 parse ∘ serialize = identity                  (oracle: leaf-by-leaf comparison + re-serialisation)

import (
	"bytes"
	"fmt"
	"math"
	"strings"
	"time"

	"github.com/b2broker/simplefix-go/fix"
	"github.com/b2broker/simplefix-go/fix/encoding"
	"vlib"
)

type serCase struct {
	T          *tmpl  `json:"tmpl"`
	Hp, Bp, Tp []*pop `json:"hp,bp,tp"`
}

type serReplay struct {
	T  *tmpl  `json:"tmpl"`
	Hp []*pop `json:"hp"`
	Bp []*pop `json:"bp"`
	Tp []*pop `json:"tp"`
}

func safeToBytes(m *fix.Message) (out []byte, err error, pan string) {
	defer func() {
		if r := recover(); r != nil {
			pan = fmt.Sprint(r)
		}
	}()
	out, err = m.ToBytes()
	return
}

func lenClass(n int) string {
	switch {
	case n < 10:
		return "1d"
	case n < 100:
		return "2d"
	case n < 1000:
		return "3d"
	}
	return "4d"
}

func sumClass(s string) string {
	switch {
	case strings.HasPrefix(s, "00"):
		return "<10"
	case strings.HasPrefix(s, "0"):
		return "<100"
	}
	return ">=100"
}

// checkSer runs the oracle of property prop on one message, and then (C01, C17) on the same live
// message object after each of a sequence of in-place mutations through the public mutators
// (Value.Set, FromBytes, KeyValue.Set, Set(nil), Group.AddEntry): "every message the library
// serializes" includes the second and third serialisation of an updated message.
func checkSer(R *vlib.Out, prop string, t *tmpl, hp, bp, tp []*pop) {
	R.Eval()
	rp := serReplay{t, hp, bp, tp}
	var m *fix.Message
	if pan := safely(func() { m = t.messageMode(hp, bp, tp, buildMode(t, bp)) }); pan != "" {
		R.Violate("panic-building-message", pan+" "+describe(t), rp)
		return
	}
	if !checkBytes(R, prop, t, hp, bp, tp, m, rp, "") {
		return
	}
	if prop == "C17" {
		// another message of the same type arrives with another BeginString and is parsed into an object of its
		// own: this message is what it was (objects of one type share nothing but their definition)
		if out1, err1, pan1 := safeToBytes(m); pan1 == "" && err1 == nil {
			snap := append([]byte{}, out1...)
			pre := t.BS + "=" + t.Begin + "\x01"
			if bytes.HasPrefix(snap, []byte(pre)) {
				alt := append([]byte(t.BS+"=FIX.4.2\x01"), snap[len(pre):]...)
				if i := bytes.LastIndex(alt, []byte("\x01"+t.CS+"=")); i > 0 {
					sum := 0
					for _, c := range alt[:i+1] {
						sum += int(c)
					}
					alt = append(alt[:i+1], []byte(fmt.Sprintf("%s=%03d\x01", t.CS, sum%256))...)
					other := t.message(emptyPops(t.Hdr), emptyPops(t.Body), emptyPops(t.Trl))
					if t.Gen != "" {
						other = genCtors[t.Gen]()
					}
					_ = safeUnmarshal(other, alt, false)
					if out2, _, _ := safeToBytes(m); !bytes.Equal(snap, out2) {
						R.Violate("unrelated-parse-changes-message", fmt.Sprintf("serialised %s, then - after a message with BeginString FIX.4.2 was parsed into another object of the type - %s  %s", vlib.Show(snap), vlib.Show(out2), describe(t)), rp)
						return
					}
				}
			}
		}
	}
	if prop == "C02" || t.Gen != "" {
		return
	}
	// ---- mutation phase: cumulative in-place updates, re-serialised and re-checked after each ----
	hp, bp, tp = clonePops(hp), clonePops(bp), clonePops(tp)
	var ls []liveRef
	liveLeaves(t.Hdr, hp, m.Header().Items(), false, &ls)
	liveLeaves(t.Body, bp, m.Body(), false, &ls)
	for j, l := range ls {
		if j >= 4 {
			break
		}
		kind := (j + len(ls) + t.Unit) % 4
		alt := altVal[l.n.Typ]
		if l.p.Val == alt {
			alt = defVal[l.n.Typ]
		}
		stage := ""
		pan := safely(func() {
			switch kind {
			case 0:
				stage = "Value.Set"
				if err := l.kv.Value.Set(decode(l.n.Typ, alt)); err != nil {
					panic(err)
				}
				l.p.Val, l.p.Route = alt, 's'
			case 1:
				stage = "FromBytes"
				if l.n.Typ == "Float" && withSubMs {
					alt = "-0.0010" // a text the library would not print itself: it goes back on the wire verbatim
				}
				if err := l.kv.FromBytes([]byte(alt)); err != nil {
					panic(err)
				}
				l.p.Val, l.p.Route = alt, 'p'
			case 2:
				stage = "KeyValue.Set"
				np := &pop{Set: true, Val: alt, Route: 'c'}
				l.kv.Set(mkVal(l.n.Typ, np))
				l.p.Val, l.p.Route = alt, 'c'
			case 3:
				if l.inGroup || l.n.Typ == "Raw" { // Raw.Set has no nil form
					stage = "Value.Set"
					if err := l.kv.Value.Set(decode(l.n.Typ, alt)); err != nil {
						panic(err)
					}
					l.p.Val, l.p.Route = alt, 's'
				} else {
					stage = "Set(nil)"
					if err := l.kv.Value.Set(nil); err != nil {
						panic(err)
					}
					l.p.Set = false
				}
			}
		})
		if pan != "" {
			R.Violate("panic-in-mutator:"+stage, pan+" "+describe(t), rp)
			return
		}
		R.Eval()
		R.Count("mutation:" + stage + "/was-route-" + string(l.wasRoute))
		if !checkBytes(R, prop, t, hp, bp, tp, m, rp, "after:"+stage+"(was "+string(l.wasRoute)+"):") {
			return
		}
	}
	// a Set that is refused (the argument has a type the value cannot take; the generated setters drop
	// that error) changes nothing: a populated field keeps its value, an unpopulated one stays off the wire
	refused := 0
	for i, n := range t.Body {
		if n.Kind != 'k' {
			continue
		}
		kv, ok := m.Body()[i].(*fix.KeyValue)
		if !ok || kv.Value == nil {
			continue
		}
		var err error
		if pan := safely(func() { err = kv.Value.Set(foreignValue{}) }); pan != "" {
			R.Violate("panic-in-mutator:refused-Set", pan+" "+describe(t), rp)
			return
		}
		if err == nil {
			R.Violate("refused-Set:accepted-a-foreign-type:"+n.Typ, describe(t), rp)
			return
		}
		refused++
	}
	if refused > 0 {
		R.Eval()
		R.Count("mutation:refused-Set")
		if !checkBytes(R, prop, t, hp, bp, tp, m, rp, "after:refused-Set:") {
			return
		}
	}
	// one more entry for the first populated body-level group
	for i, n := range t.Body {
		if n.Kind == 'g' && len(bp[i].Entries) > 0 {
			g := m.Body()[i].(*fix.Group)
			e := clonePops(bp[i].Entries[0])
			if pan := safely(func() { g.AddEntry(buildItems(n.Kids, e)) }); pan != "" {
				R.Violate("panic-in-mutator:AddEntry", pan, rp)
				return
			}
			bp[i].Entries = append(bp[i].Entries, e)
			R.Eval()
			R.Count("mutation:AddEntry")
			checkBytes(R, prop, t, hp, bp, tp, m, rp, "after:AddEntry:")
			break
		}
	}
}

// foreignValue is a Go value no FIX value type can be set from
type foreignValue struct{}

func safely(f func()) (pan string) {
	defer func() {
		if r := recover(); r != nil {
			pan = fmt.Sprint(r)
		}
	}()
	f()
	return
}

// alternate values of a different length than the defaults (so that a stale length shows)
var altVal = map[string]string{
	"String": "bb=c", "Int": "-10", "Uint": "18446744073709551615", "Float": "-0.001", "Time": "20240229-12:00:00.001", "Bool": "N", "Raw": "rr=1",
}

type liveRef struct {
	n        *node
	p        *pop
	kv       *fix.KeyValue
	inGroup  bool
	wasRoute byte
}

// liveLeaves pairs every populated leaf of the population with the library's live KeyValue.
func liveLeaves(f []*node, ps []*pop, items fix.Items, inGroup bool, out *[]liveRef) {
	for i, t := range f {
		switch t.Kind {
		case 'k':
			if ps[i].Set {
				*out = append(*out, liveRef{t, ps[i], items[i].(*fix.KeyValue), inGroup, ps[i].Route})
			}
		case 'c':
			liveLeaves(t.Kids, ps[i].Kids, items[i].(*fix.Component).Items(), inGroup, out)
		case 'g':
			g := items[i].(*fix.Group)
			for k, e := range ps[i].Entries {
				liveLeaves(t.Kids, e, g.Entries()[k], true, out)
			}
		}
	}
}

// buildMode selects how group entries are assembled: 0 populate-then-AddEntry, 1 AddEntry of an
// empty entry then fill through the values' Set/FromBytes, 2 AddEntry then replace the entry's
// slots through Component.Set (what the generated entry wrappers do).
func buildMode(t *tmpl, bp []*pop) int {
	if t.Gen != "" {
		return 0
	}
	return (t.Unit + len(popKey(bp))) % 3
}

// checkBytes serialises the live message and applies the property's oracle for the population.
// bytes handed out by earlier serialisations of the message under test (a frame queued for the
// transport is such a slice): they must still read what they read when they were returned
type heldBytes struct{ live, snap []byte }

var held []heldBytes

func checkBytes(R *vlib.Out, prop string, t *tmpl, hp, bp, tp []*pop, m *fix.Message, rp serReplay, stage string) bool {
	out, err, pan := safeToBytes(m)
	if pan != "" {
		R.Violate(stage+"panic-in-ToBytes", pan+" "+describe(t), rp)
		return false
	}
	if err != nil {
		R.Violate(stage+"ToBytes-error", err.Error()+" "+describe(t), rp)
		return false
	}
	if stage == "" {
		held = held[:0]
	}
	for _, h := range held {
		if !bytes.Equal(h.live, h.snap) {
			R.Violate("earlier-serialisation-overwritten", fmt.Sprintf("%s bytes returned by an earlier ToBytes read %s after a later serialisation of the same message (were %s) %s",
				stage, vlib.Show(h.live), vlib.Show(h.snap), describe(t)), rp)
			return false
		}
	}
	held = append(held, heldBytes{out, append([]byte{}, out...)})
	fs, ok := tokenize(out)
	switch prop {
	case "C01":
		if d := integrity(out, t.BS, t.BL, t.MT, t.CS, true); d != "" {
			R.Violate(stage+d, vlib.Show(out)+"  "+describe(t), rp)
			return false
		}
		bl, cs := framingVals(out)
		R.ClassD(unitKey(t) + typedKey(t.Body) + "/" + popKey(bp) + "/" + popKey(hp) + popKey(tp) + "/" + lenClass(atoiSafe(bl)) + "/" + sumClass(cs) + stage)
		R.Outcome("len" + lenClass(atoiSafe(bl)) + " sum" + sumClass(cs))
		R.Sample(4, map[string]string{"template": describe(t), "bytes": vlib.Show(out), "stage": stage})
	case "C17":
		if !ok {
			fs = tokenizeLenient(out)
		}
		if len(fs) < 4 {
			R.Violate(stage+"too-few-fields", vlib.Show(out), rp)
			return false
		}
		var exp, expNoTrl []field
		refFields(t.Hdr, hp, &exp)
		refFields(t.Body, bp, &exp)
		expNoTrl = append(expNoTrl, exp...)
		refFields(t.Trl, tp, &exp)
		got := fs[3 : len(fs)-1]
		if fieldsStr(got) != fieldsStr(exp) {
			sig := c17sig(t, hp, bp, tp, got, exp, expNoTrl)
			known := R.Violate(withStage(stage, sig), fmt.Sprintf("%s wire=%s expected-fields=%s %s", stage, vlib.Show(out), fieldsStr(exp), describe(t)), rp)
			return known // judged modulo a known loss, the sequence may continue
		}
		R.ClassD(unitKey(t) + typedKey(t.Body) + "/" + popKey(bp) + "/" + popKey(hp) + popKey(tp) + "/" + routeKey(hp, bp, tp) + stage)
		R.Outcome(fmt.Sprintf("fields=%d", len(got)))
		R.Sample(4, map[string]string{"template": describe(t), "bytes": vlib.Show(out), "expected_fields": fieldsStr(exp), "stage": stage})
	case "C02":
		checkRoundTrip(R, t, hp, bp, tp, out, rp)
	}
	return true
}

// withStage keeps known signatures stable (a known loss is the same finding at every stage).
func withStage(stage, sig string) string {
	if vlib.Known(sig) {
		return sig
	}
	return stage + sig
}

func atoiSafe(s string) int {
	n := 0
	for _, c := range s {
		if c < '0' || c > '9' {
			return -1
		}
		n = n*10 + int(c-'0')
	}
	return n
}

func routeKey(pss ...[]*pop) string {
	seen := map[byte]bool{}
	var walk func(ps []*pop)
	walk = func(ps []*pop) {
		for _, p := range ps {
			if p.Set {
				seen[p.Route] = true
			}
			walk(p.Kids)
			for _, e := range p.Entries {
				walk(e)
			}
		}
	}
	for _, ps := range pss {
		walk(ps)
	}
	s := ""
	for _, r := range []byte{'c', 's', 'p'} {
		if seen[r] {
			s += string(r)
		}
	}
	return s
}

// c17sig reduces a field-list mismatch to a signature naming the input class that fails.
// The rest of the message is judged modulo a *known* loss, so a known cause never masks a new one.
func c17sig(t *tmpl, hp, bp, tp []*pop, got, exp, expNoTrl []field) string {
	if len(exp) > len(expNoTrl) && fieldsStr(got) == fieldsStr(expNoTrl) {
		return "trailer-field-dropped"
	}
	parts := []struct {
		f  []*node
		ps []*pop
		nm string
	}{{t.Hdr, hp, "header"}, {t.Body, bp, "body"}, {t.Trl, tp, "trailer"}}
	for _, pr := range parts {
		if pr.nm == "trailer" && vlib.Known("trailer-field-dropped") {
			continue
		}
		var ls []leafRef
		setLeaves(pr.f, pr.ps, &ls)
		for _, l := range ls {
			found := false
			for _, g := range got {
				if g.Tag == l.n.Tag && g.Val == wireText(l.p.Val) {
					found = true
				}
			}
			if !found {
				if pr.nm == "trailer" {
					return "trailer-field-dropped"
				}
				if l.p.Route == 'c' && (l.n.Typ == "Uint" || l.n.Typ == "Float") {
					return "ctor-null:" + l.n.Typ
				}
				return fmt.Sprintf("field-missing:%s/%c/%s", l.n.Typ, l.p.Route, pr.nm)
			}
		}
	}
	if !emptySegmentFree(got) {
		return "empty-field-or-segment"
	}
	if len(got) > len(exp) {
		return "extra-field"
	}
	return "fields-reordered-or-changed"
}

func emptySegmentFree(fs []field) bool {
	for _, f := range fs {
		if f.Tag == "" || f.Val == "" {
			return false
		}
	}
	return true
}

func sameValue(typ string, want string, got interface{}) string {
	w := decode(typ, want)
	if fmt.Sprintf("%T", got) != fmt.Sprintf("%T", w) {
		return fmt.Sprintf("value-type:%s->%T", typ, got)
	}
	switch x := w.(type) {
	case float64:
		if math.Float64bits(x) != math.Float64bits(got.(float64)) {
			return "value-differs:Float"
		}
	case time.Time:
		g := got.(time.Time)
		if !g.Equal(x) || g.Location() != time.UTC {
			return "value-differs:Time"
		}
	case []byte:
		if !bytes.Equal(x, got.([]byte)) {
			return "value-differs:Raw"
		}
	default:
		if w != got {
			return "value-differs:" + typ
		}
	}
	return ""
}

// cmpItems compares a parsed item list with the population.  wire tells which populated leaves
// actually made it to the wire (a leaf lost by serialisation is C17's finding, not C02's).
func cmpItems(f []*node, ps []*pop, items fix.Items, inGroup bool) string {
	if len(items) != len(f) {
		return "item-count"
	}
	for i, t := range f {
		switch t.Kind {
		case 'k':
			kv, ok := items[i].(*fix.KeyValue)
			if !ok {
				return "item-kind"
			}
			if ps[i].Set {
				if kv.Value.IsNull() {
					return "value-null-after-parse:" + t.Typ
				}
				if d := sameValue(t.Typ, ps[i].Val, kv.Value.Value()); d != "" {
					if inGroup {
						return "group-entry-" + d
					}
					return d
				}
			} else if !kv.Value.IsNull() {
				return "value-populated-after-parse:" + t.Typ
			}
		case 'c':
			c, ok := items[i].(*fix.Component)
			if !ok {
				return "item-kind"
			}
			if d := cmpItems(t.Kids, ps[i].Kids, c.Items(), inGroup); d != "" {
				return d
			}
		case 'g':
			g, ok := items[i].(*fix.Group)
			if !ok {
				return "item-kind"
			}
			if len(g.Entries()) != len(ps[i].Entries) {
				return fmt.Sprintf("group-entry-count:%d!=%d", len(g.Entries()), len(ps[i].Entries))
			}
			for k, e := range ps[i].Entries {
				if d := cmpItems(t.Kids, e, g.Entries()[k], true); d != "" {
					return d
				}
			}
		}
	}
	return ""
}

func parseErrSig(err error) string {
	e := err.Error()
	switch {
	case strings.Contains(e, "wrong items count"):
		return "parse-error:wrong-items-count"
	case strings.Contains(e, "PANIC"):
		return "parse-panic"
	case strings.Contains(e, "invalid body length"), strings.Contains(e, "an invalid body length"):
		return "parse-error:body-length"
	case strings.Contains(e, "invalid checksum"):
		return "parse-error:checksum"
	case strings.Contains(e, "could not unmarshal element"):
		return "parse-error:element"
	case strings.Contains(e, "required field"):
		return "parse-error:required-field"
	}
	if len(e) > 40 {
		e = e[:40]
	}
	return "parse-error:" + strings.ReplaceAll(e, " ", "_")
}

func safeUnmarshal(m *fix.Message, data []byte, strict bool) (err error) {
	defer func() {
		if r := recover(); r != nil {
			err = fmt.Errorf("PANIC %v", r)
		}
	}()
	return encoding.NewDefaultUnmarshaller(strict).Unmarshal(m, data)
}

// wirePops returns a copy of the population in which leaves that did not reach the wire are unset
// (serialisation losses are judged by C17; C02 is judged on what was really serialised).
func wireAdjust(t *tmpl, hp, bp, tp []*pop, fs []field) (h, b, tr []*pop, lost int) {
	h, b, tr = clonePops(hp), clonePops(bp), clonePops(tp)
	var exp []field
	refFields(t.Hdr, h, &exp)
	refFields(t.Body, b, &exp)
	refFields(t.Trl, tr, &exp)
	// only the *presence and order* of the fields matters here: a populated field that is missing
	// from the wire is C17's finding; a field that is present with a different text is judged by
	// the round trip itself (the parsed value must equal the value that was set)
	if len(fs) >= 4 && tagsStr(fs[3:len(fs)-1]) == tagsStr(exp) {
		return h, b, tr, 0
	}
	return nil, nil, nil, 1
}

func checkRoundTrip(R *vlib.Out, t *tmpl, hp, bp, tp []*pop, out []byte, rp serReplay) {
	if touchesDupTags(t, hp, bp, tp) {
		// the template itself has a tag at two positions (e.g. the generated MarketDataSnapshotFullRefresh
		// carries Instrument/NoUnderlyings/NoLegs both in the body and in NoMDEntries entries): the
		// stated precondition "a tag number occupies one position" excludes populating such tags
		R.Count("skipped:tag-at-two-template-positions")
		return
	}
	fs, ok := tokenize(out)
	lost := 1
	if ok {
		_, _, _, lost = wireAdjust(t, hp, bp, tp, fs)
	}
	if lost != 0 {
		// serialisation did not put the population on the wire: outside C02's premise (C17 reports it)
		R.Count("skipped:serialisation-lossy(C17)")
		return
	}
	for _, strict := range []bool{true, false} {
		p := t.message(emptyPops(t.Hdr), emptyPops(t.Body), emptyPops(t.Trl))
		data := make([]byte, len(out))
		copy(data, out)
		err := safeUnmarshal(p, data, strict)
		if err != nil {
			R.Violate(classifyParseFailure(t, hp, bp, tp, err), fmt.Sprintf("strict=%v %s -> %v  %s", strict, vlib.Show(out), err, describe(t)), rp)
			return
		}
		d := cmpItems(t.Hdr, hp, p.Header().Items(), false)
		if d == "" {
			d = cmpItems(t.Body, bp, p.Body(), false)
		}
		if d == "" {
			d = cmpItems(t.Trl, tp, p.Trailer().Items(), false)
		}
		if d != "" {
			R.Violate(d, fmt.Sprintf("strict=%v %s  %s", strict, vlib.Show(out), describe(t)), rp)
			return
		}
		out2, err2, pan := safeToBytes(p)
		if pan != "" || err2 != nil {
			R.Violate("reserialize-fails", fmt.Sprint(pan, err2), rp)
			return
		}
		if !bytes.Equal(out, out2) {
			R.Violate("reserialize-differs", vlib.Show(out)+" vs "+vlib.Show(out2), rp)
			return
		}
		if strict {
			// the parsed message is a message like any other: one field of one group entry is changed in place
			// and exactly that field changes on the wire (entries that were decoded from identical bytes are
			// still entries of their own)
			hp2, bp2, tp2 := clonePops(hp), clonePops(bp), clonePops(tp)
			var ls []liveRef
			liveLeaves(t.Hdr, hp2, p.Header().Items(), false, &ls)
			liveLeaves(t.Body, bp2, p.Body(), false, &ls)
			for _, l := range ls {
				if !l.inGroup || l.n.Typ == "Time" {
					continue
				}
				alt := altVal[l.n.Typ]
				if l.p.Val == alt {
					alt = defVal[l.n.Typ]
				}
				if pan := safely(func() {
					if err := l.kv.Value.Set(decode(l.n.Typ, alt)); err != nil {
						panic(err)
					}
				}); pan != "" {
					R.Violate("parsed-then-changed:panic", pan+" "+describe(t), rp)
					return
				}
				l.p.Val, l.p.Route = alt, 's'
				if !checkBytes(R, "C17", t, hp2, bp2, tp2, p, rp, "parsed-then-changed:") {
					return
				}
				break
			}
		}
	}
	R.ClassD(unitKey(t) + typedKey(t.Body) + "/" + popKey(bp) + "/" + popKey(hp) + popKey(tp) + "/" + valKey(hp, bp, tp, t))
	R.Outcome(fmt.Sprintf("roundtrip-ok fields=%d", len(fs)))
	R.Sample(4, map[string]string{"template": describe(t), "bytes": vlib.Show(out)})
}

// valKey: which non-default values occur (by type and value index class)
func valKey(hp, bp, tp []*pop, t *tmpl) string {
	var ls []leafRef
	setLeaves(t.Hdr, hp, &ls)
	setLeaves(t.Body, bp, &ls)
	setLeaves(t.Trl, tp, &ls)
	var parts []string
	for _, l := range ls {
		if l.p.Val != defVal[l.n.Typ] && l.n.Typ != "Int" || (l.n.Typ == "Int" && l.p.Val != "7" && l.p.Val != "3" && l.p.Val != "9") {
			v := l.p.Val
			if len(v) > 12 {
				v = fmt.Sprintf("%s..%d", v[:6], len(v))
			}
			parts = append(parts, l.n.Typ+"="+v)
		}
	}
	return strings.Join(parts, ",")
}

// classifyParseFailure names the input class behind a failed parse of a valid message.
func classifyParseFailure(t *tmpl, hp, bp, tp []*pop, err error) string {
	sig := parseErrSig(err)
	if sig == "parse-error:wrong-items-count" {
		// is there a group whose count tag text "<tag>=" occurs earlier in the message than the
		// group itself, inside a value or as the tail of another tag?  (un-anchored group start)
		if groupStartShadowed(t, hp, bp, tp) {
			return "group-start-unanchored"
		}
	}
	return sig
}

func groupStartShadowed(t *tmpl, hp, bp, tp []*pop) bool {
	var fs []field
	refFields(t.Hdr, hp, &fs)
	refFields(t.Body, bp, &fs)
	refFields(t.Trl, tp, &fs)
	wire := t.BS + "=" + t.Begin + "\x01" + t.BL + "=0\x01" + t.MT + "=" + t.MsgType + "\x01"
	var ns []*node
	leaves(t.Hdr, &ns)
	leaves(t.Body, &ns)
	leaves(t.Trl, &ns)
	for _, f := range fs {
		wire += f.Tag + "=" + f.Val + "\x01"
	}
	for _, n := range ns {
		if n.Kind != 'g' {
			continue
		}
		key := n.Tag + "="
		first := strings.Index(wire, key)
		genuine := strings.Index(wire, "\x01"+key)
		if first >= 0 && genuine >= 0 && first < genuine+1 {
			return true
		}
		// inside entries (nested groups are searched within the entry slice)
		if first >= 0 && genuine < 0 {
			return true
		}
	}
	return false
}

// framingVals extracts the BodyLength and CheckSum values by position (2nd and last segment).
func framingVals(b []byte) (bl, cs string) {
	segs := bytes.Split(b[:len(b)-1], []byte{1})
	if len(segs) < 3 {
		return "", ""
	}
	if i := bytes.IndexByte(segs[1], '='); i >= 0 {
		bl = string(segs[1][i+1:])
	}
	last := segs[len(segs)-1]
	if i := bytes.IndexByte(last, '='); i >= 0 {
		cs = string(last[i+1:])
	}
	return
}

// tokenizeLenient never fails: a segment without '=' becomes a field with empty tag.
func tokenizeLenient(b []byte) []field {
	if len(b) > 0 && b[len(b)-1] == 1 {
		b = b[:len(b)-1]
	}
	var out []field
	for _, seg := range bytes.Split(b, []byte{1}) {
		i := bytes.IndexByte(seg, '=')
		if i < 0 {
			out = append(out, field{"", string(seg)})
			continue
		}
		out = append(out, field{string(seg[:i]), string(seg[i+1:])})
	}
	return out
}

var dupCache = map[*tmpl]map[string]bool{}

func dupTags(t *tmpl) map[string]bool {
	if d, ok := dupCache[t]; ok {
		return d
	}
	cnt := map[string]int{t.BS: 1, t.BL: 1, t.MT: 1, t.CS: 1}
	var ns []*node
	leaves(t.Hdr, &ns)
	leaves(t.Body, &ns)
	leaves(t.Trl, &ns)
	for _, n := range ns {
		cnt[n.Tag]++
	}
	d := map[string]bool{}
	for k, c := range cnt {
		if c > 1 {
			d[k] = true
		}
	}
	dupCache[t] = d
	return d
}

func touchesDupTags(t *tmpl, hp, bp, tp []*pop) bool {
	d := dupTags(t)
	if len(d) == 0 {
		return false
	}
	var fs []field
	refFields(t.Hdr, hp, &fs)
	refFields(t.Body, bp, &fs)
	refFields(t.Trl, tp, &fs)
	for _, f := range fs {
		if d[f.Tag] {
			return true
		}
	}
	return false
}

// unitKey identifies the work unit a template belongs to (work units are partitioned among shards,
// so class keys that contain it are shard-disjoint).
func unitKey(t *tmpl) string { return fmt.Sprintf("u%d/%s/", t.Unit, t.Gen) }

func tagsStr(fs []field) string {
	var b bytes.Buffer
	for _, f := range fs {
		b.WriteString(f.Tag + "|")
	}
	return b.String()
}
