// codecmc: E1 — bounded-exhaustive enumeration of the codec input space against a reference
// codec (DESIGN.md §2.2).  One sub-command per property; see checks.py for the tier bounds.
package main

import (
	"flag"
	"fmt"
	"os"

	"vlib"
)

var (
	fBudget  = flag.Int("budget", 4, "template node budget")
	fValdev  = flag.Int("valdev", 1, "value deviation bound")
	fEntries = flag.Int("entries", 2, "max group entries")
	fBases   = flag.Int("bases", 24, "number of base messages (C03)")
	fLen     = flag.Int("len", 6, "max byte-string length (C11)")
	fTokens  = flag.Int("tokens", 4, "max token count (C11)")
)

func main() {
	R := vlib.Init()
	prop := *vlib.Prop
	if *vlib.ReplayPath != "" {
		replay(R, prop)
		R.Finish()
		return
	}
	switch prop {
	case "C01", "C17", "C02":
		withSubMs = prop != "C02"
		enumSer(R, prop, *fBudget, *fValdev, *fEntries, true)
		enumGenerated(R, prop)
	case "C18":
		enumC18(R, *fBudget)
	case "C03":
		enumC03(R, *fBases)
	case "C11":
		enumC11(R, *fLen, *fTokens)
	default:
		fmt.Fprintln(os.Stderr, "unknown property", prop)
		os.Exit(3)
	}
	R.Finish()
}

func replay(R *vlib.Out, prop string) {
	switch prop {
	case "C01", "C17", "C02":
		withSubMs = prop != "C02"
		var rp serReplay
		vlib.LoadReplay(&rp)
		if rp.T == nil {
			vlib.Fatal("replay payload has no template")
		}
		checkSer(R, prop, rp.T, rp.Hp, rp.Bp, rp.Tp)
	case "C18":
		replayC18(R)
	case "C03":
		replayC03(R)
	case "C11":
		replayC11(R)
	}
}
