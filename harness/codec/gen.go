package main

// Bounded-exhaustive generators of the codec input space S-in (DESIGN.md §2.2): template
// shapes up to a node budget, tag and type assignments from collision-forcing pools, all
// populations, and value alphabets entering through every public route.

import (
	"fmt"
	"math"
	"strconv"
	"strings"
	"time"

	"github.com/b2broker/simplefix-go/fix"
)

// ---- template description (harness-owned, independent of library objects) ----

type node struct {
	Kind byte    `json:"k"` // 'k' field, 'c' component, 'g' group
	Tag  string  `json:"t,omitempty"`
	Typ  string  `json:"y,omitempty"` // String Int Uint Float Time Bool Raw
	Kids []*node `json:"c,omitempty"`
}

// pop is a population of a template (parallel tree).
type pop struct {
	Set     bool     `json:"s,omitempty"`
	Val     string   `json:"v,omitempty"` // canonical text of the value (decoded by typ)
	Route   byte     `json:"r,omitempty"` // 'c' constructor, 's' Set, 'p' FromBytes
	Kids    []*pop   `json:"c,omitempty"`
	Entries [][]*pop `json:"e,omitempty"`
}

type tmpl struct {
	BS, BL, MT, CS string // framing tags
	Begin, MsgType string
	Gen            string `json:",omitempty"` // name of a generated tests/fix44 type ("" = harness-built template)
	Hdr, Body, Trl []*node
	Unit           int `json:",omitempty"`
}

var types = []string{"String", "Int", "Uint", "Float", "Time", "Bool", "Raw"}

// collision pool: decimal prefix/suffix relations between tags are the rule
var tagPool = []string{"1", "11", "146", "1146", "14", "46", "55", "100", "110", "43", "1461", "4", "6", "461", "114"}

// long tags with the same prefix relations (a fixed-size scratch buffer for "tag=" truncates them; the truncated
// form is then another tag of the same template)
var tagPoolLong = []string{"1234567", "123456", "12345678", "123456789", "1234568", "100500", "1005001", "2147483647", "214748364", "10050011", "12345", "21474836470"}

// forests returns all ordered forests with exactly/at most `budget` nodes and nesting depth <= depth.
func forests(budget, depth int) [][]*node {
	res := [][]*node{{}}
	if budget == 0 {
		return res
	}
	for first := 1; first <= budget; first++ {
		for _, t := range trees(first, depth) {
			for _, rest := range forests(budget-first, depth) {
				f := append([]*node{t}, rest...)
				res = append(res, f)
			}
		}
	}
	return res
}

func trees(size, depth int) []*node {
	var out []*node
	if size == 1 {
		return []*node{{Kind: 'k'}}
	}
	if depth <= 1 {
		return nil
	}
	for _, k := range []byte{'c', 'g'} {
		for _, f := range forests(size-1, depth-1) {
			if countNodes(f) != size-1 || len(f) == 0 {
				continue
			}
			if k == 'g' && f[0].Kind != 'k' { // the first item of a group entry is a plain field (FIX rule)
				continue
			}
			out = append(out, &node{Kind: k, Kids: f})
		}
	}
	return out
}

func countNodes(f []*node) int {
	n := 0
	for _, t := range f {
		n += 1 + countNodes(t.Kids)
	}
	return n
}

func cloneNodes(f []*node) []*node {
	var o []*node
	for _, t := range f {
		c := *t
		c.Kids = cloneNodes(t.Kids)
		o = append(o, &c)
	}
	return o
}

func shapeKey(f []*node) string {
	var b strings.Builder
	for _, t := range f {
		switch t.Kind {
		case 'k':
			b.WriteByte('k')
		case 'c':
			b.WriteString("c(" + shapeKey(t.Kids) + ")")
		case 'g':
			b.WriteString("g(" + shapeKey(t.Kids) + ")")
		}
	}
	return b.String()
}

func typedKey(f []*node) string {
	var b strings.Builder
	for _, t := range f {
		switch t.Kind {
		case 'k':
			b.WriteString(t.Typ[:1] + t.Typ[len(t.Typ)-1:])
		case 'c':
			b.WriteString("c(" + typedKey(t.Kids) + ")")
		case 'g':
			b.WriteString("g(" + typedKey(t.Kids) + ")")
		}
	}
	return b.String()
}

// assign gives tags (skipping those in use) and types by rotation.
func assign(f []*node, pool []string, next *int, used map[string]bool, typs []string, ti *int) {
	pick := func() string {
		for tries := 0; tries < len(pool); tries++ {
			t := pool[*next%len(pool)]
			*next++
			if !used[t] {
				used[t] = true
				return t
			}
		}
		for n := 5001; ; n++ { // pool exhausted (never happens within the stated budgets)
			t := strconv.Itoa(n)
			if !used[t] {
				used[t] = true
				return t
			}
		}
	}
	for _, t := range f {
		switch t.Kind {
		case 'k':
			t.Tag = pick()
			t.Typ = typs[*ti%len(typs)]
			*ti++
		case 'g':
			t.Tag = pick()
			assign(t.Kids, pool, next, used, typs, ti)
		default:
			assign(t.Kids, pool, next, used, typs, ti)
		}
	}
}

func leaves(f []*node, out *[]*node) {
	for _, t := range f {
		if t.Kind == 'k' {
			*out = append(*out, t)
		} else {
			if t.Kind == 'g' {
				*out = append(*out, t)
			}
			leaves(t.Kids, out)
		}
	}
}

func allTags(t *tmpl) []string {
	var ns []*node
	leaves(t.Hdr, &ns)
	leaves(t.Body, &ns)
	leaves(t.Trl, &ns)
	out := []string{t.BS, t.BL, t.MT, t.CS}
	for _, n := range ns {
		out = append(out, n.Tag)
	}
	return out
}

// ---- values ----

var tBase = time.Date(1999, 12, 31, 23, 59, 59, 999000000, time.UTC)

// canonical text of the default value of each type
var defVal = map[string]string{
	"String": "a", "Int": "7", "Uint": "5", "Float": "1.5", "Time": "19991231-23:59:59.999", "Bool": "Y", "Raw": "r",
}

var sumTenths = func() float64 { a, b := 0.1, 0.2; return a + b }() // 0.30000000000000004: needs 17 significant digits

func ff(x float64) string { return strconv.FormatFloat(x, 'f', -1, 64) }

// subMsTimes are time values with a sub-millisecond part (written "<canonical text>+<ns>ns"): the wire
// text is the value truncated to the millisecond.  They exist for constructor / Set only and are not
// part of C02's domain (UTC times at millisecond precision).
var subMsTimes = []string{"19991231-23:59:59.123+500000ns", "19991231-23:59:59.123+999999ns", "20240229-12:00:00.999+500000ns", "20240229-12:00:00.999+999999ns", "20240229-12:00:00.000+1ns"}

// wireText is the canonical text a value puts on the wire.
func wireText(v string) string {
	if i := strings.IndexByte(v, '+'); i >= 0 && strings.HasSuffix(v, "ns") {
		return v[:i]
	}
	return v
}

func longStr(n int) string { return strings.Repeat("x", n) }

// value alphabets (canonical text); tag-dependent strings are added per template
var alphabet = map[string][]string{
	"String": {"a", "=", "1=2", "10=000", "8=FIX.4.4", "9=5", "35=A", "a\x00b", "\x80\xfe\xff", " ", "==", "50% filled", "%s%d%%"},
	"Int":    {"7", "0", "-1", "1", "9", "10", "99", "100", strconv.Itoa(math.MaxInt64), strconv.Itoa(math.MinInt64)},
	"Uint":   {"5", "0", "1", "18446744073709551615"},
	"Float":  {"1.5", "0", "-0.001", strconv.FormatFloat(1e21, 'f', -1, 64), strconv.FormatFloat(5e-324, 'f', -1, 64), strconv.FormatFloat(math.MaxFloat64, 'f', -1, 64), "-1",
		ff(sumTenths), ff(math.Pi), ff(9007199254740992), ff(2.2250738585072014e-308), "123456.789", ff(1.0 / 3.0),
		ff(-1e19), ff(1e19), ff(-math.MaxFloat64), ff(-9223372036854777856), ff(9223372036854775808)},
	"Time":   {"19991231-23:59:59.999", "00010101-00:00:00.000", "99991231-23:59:59.999", "20240229-12:00:00.001"},
	"Bool":   {"Y", "N"},
	"Raw":    {"r", "r=1", "10=000", "\x00\xff"},
}

var withSubMs = false // set for C01 / C17 (not C02)

// parseable texts that differ from the library's own rendering; they enter through FromBytes only
var nonCanonical = map[string][]string{
	"Float": {"1.50", "100.00", "0.10", "+7", "1e3", "-0.0", "007.250"},
}

func valuesFor(typ string, t *tmpl) []string {
	vs := append([]string{}, alphabet[typ]...)
	if typ == "Time" && withSubMs {
		vs = append(vs, subMsTimes...)
	}
	if typ == "String" || typ == "Raw" {
		for _, tg := range allTags(t) {
			vs = append(vs, tg+"=", tg+"=1", "x"+tg+"=2")
		}
		if typ == "String" {
			vs = append(vs, longStr(300))
		}
	}
	return vs
}

// decode canonical text into the Go value handed to constructors / Set
func decode(typ, s string) interface{} {
	switch typ {
	case "String":
		return s
	case "Int":
		v, err := strconv.Atoi(s)
		if err != nil {
			panic(err)
		}
		return v
	case "Uint":
		v, err := strconv.ParseUint(s, 10, 64)
		if err != nil {
			panic(err)
		}
		return v
	case "Float":
		v, err := strconv.ParseFloat(s, 64)
		if err != nil {
			panic(err)
		}
		return v
	case "Time":
		extra := time.Duration(0)
		if i := strings.IndexByte(s, '+'); i >= 0 {
			ns, err := strconv.Atoi(strings.TrimSuffix(s[i+1:], "ns"))
			if err != nil {
				panic(err)
			}
			extra, s = time.Duration(ns), s[:i]
		}
		v, err := time.Parse("20060102-15:04:05.000", s)
		if err != nil {
			panic(err)
		}
		return v.Add(extra)
	case "Bool":
		return s == "Y"
	}
	return []byte(s)
}

func emptyVal(typ string) fix.Value {
	switch typ {
	case "String":
		return &fix.String{}
	case "Int":
		return &fix.Int{}
	case "Uint":
		return &fix.Uint{}
	case "Float":
		return &fix.Float{}
	case "Time":
		return &fix.Time{}
	case "Bool":
		return &fix.Bool{}
	}
	return &fix.Raw{}
}

// mkVal builds a library value through the requested public route.
func mkVal(typ string, p *pop) fix.Value {
	if !p.Set {
		return emptyVal(typ)
	}
	gv := decode(typ, p.Val)
	switch p.Route {
	case 'c':
		switch typ {
		case "String":
			return fix.NewString(gv.(string))
		case "Int":
			return fix.NewInt(gv.(int))
		case "Uint":
			return fix.NewUint(gv.(uint64))
		case "Float":
			return fix.NewFloat(gv.(float64))
		case "Time":
			return fix.NewTime(gv.(time.Time))
		case "Raw":
			return fix.NewRaw(gv.([]byte))
		}
		fallthrough // Bool has no constructor: Set is its constructor route
	case 's':
		v := emptyVal(typ)
		if err := v.Set(gv); err != nil {
			panic(fmt.Sprintf("Set(%T) on %s: %v", gv, typ, err))
		}
		return v
	default:
		v := emptyVal(typ)
		if err := v.FromBytes([]byte(wireText(p.Val))); err != nil {
			panic(fmt.Sprintf("FromBytes(%q) on %s: %v", p.Val, typ, err))
		}
		return v
	}
}

func buildItems(f []*node, ps []*pop) fix.Items {
	var items fix.Items
	for i, t := range f {
		switch t.Kind {
		case 'k':
			items = append(items, fix.NewKeyValue(t.Tag, mkVal(t.Typ, ps[i])))
		case 'c':
			items = append(items, fix.NewComponent(buildItems(t.Kids, ps[i].Kids)...))
		case 'g':
			g := fix.NewGroup(t.Tag, buildItems(t.Kids, emptyPops(t.Kids))...)
			for _, e := range ps[i].Entries {
				g.AddEntry(buildItems(t.Kids, e))
			}
			items = append(items, g)
		}
	}
	return items
}

func emptyPops(f []*node) []*pop {
	var o []*pop
	for _, t := range f {
		p := &pop{}
		if t.Kind == 'c' {
			p.Kids = emptyPops(t.Kids)
		}
		o = append(o, p)
	}
	return o
}

func clonePops(ps []*pop) []*pop {
	var o []*pop
	for _, p := range ps {
		c := *p
		c.Kids = clonePops(p.Kids)
		c.Entries = nil
		for _, e := range p.Entries {
			c.Entries = append(c.Entries, clonePops(e))
		}
		o = append(o, &c)
	}
	return o
}

// setLeaves lists the populated field pops (with their node) of a population, in wire order.
type leafRef struct {
	n *node
	p *pop
}

func setLeaves(f []*node, ps []*pop, out *[]leafRef) {
	for i, t := range f {
		switch t.Kind {
		case 'k':
			if ps[i].Set {
				*out = append(*out, leafRef{t, ps[i]})
			}
		case 'c':
			setLeaves(t.Kids, ps[i].Kids, out)
		case 'g':
			for _, e := range ps[i].Entries {
				setLeaves(t.Kids, e, out)
			}
		}
	}
}

// messageMode builds the message with the given group-entry assembly mode (see buildMode).
func (t *tmpl) messageMode(hp, bp, tp []*pop, mode int) *fix.Message {
	if t.Gen != "" || mode == 0 {
		return t.message(hp, bp, tp)
	}
	return fix.NewMessage(t.BS, t.BL, t.CS, t.MT, t.Begin, t.MsgType).
		SetHeader(fix.NewComponent(buildItemsMode(t.Hdr, hp, mode)...)).
		SetBody(buildItemsMode(t.Body, bp, mode)...).
		SetTrailer(fix.NewComponent(buildItemsMode(t.Trl, tp, mode)...))
}

// buildItemsMode: group entries are added EMPTY first and populated afterwards, either through the
// existing values (mode 1) or by replacing the entry's slots via Component.Set (mode 2) — the two
// ways the generated entry wrappers offer after AddEntry.
func buildItemsMode(f []*node, ps []*pop, mode int) fix.Items {
	var items fix.Items
	for i, t := range f {
		switch t.Kind {
		case 'k':
			items = append(items, fix.NewKeyValue(t.Tag, mkVal(t.Typ, ps[i])))
		case 'c':
			items = append(items, fix.NewComponent(buildItemsMode(t.Kids, ps[i].Kids, mode)...))
		case 'g':
			g := fix.NewGroup(t.Tag, buildItems(t.Kids, emptyPops(t.Kids))...)
			for _, e := range ps[i].Entries {
				entry := fix.NewComponent(buildItems(t.Kids, emptyPops(t.Kids))...)
				g.AddEntry(entry.Items())
				fillEntry(t.Kids, e, entry, mode)
			}
			items = append(items, g)
		}
	}
	return items
}

func fillEntry(f []*node, ps []*pop, c *fix.Component, mode int) {
	for i, t := range f {
		switch t.Kind {
		case 'k':
			if !ps[i].Set {
				continue
			}
			if mode == 1 {
				kv := c.Get(i).(*fix.KeyValue)
				if ps[i].Route == 'p' {
					if err := kv.FromBytes([]byte(wireText(ps[i].Val))); err != nil {
						panic(err)
					}
				} else if err := kv.Value.Set(decode(t.Typ, ps[i].Val)); err != nil {
					panic(err)
				}
			} else {
				c.Set(i, fix.NewKeyValue(t.Tag, mkVal(t.Typ, ps[i])))
			}
		case 'c':
			if mode == 1 {
				fillEntry(t.Kids, ps[i].Kids, c.Get(i).(*fix.Component), mode)
			} else {
				c.SetComponent(i, fix.NewComponent(buildItemsMode(t.Kids, ps[i].Kids, mode)...))
			}
		case 'g':
			if mode == 1 {
				g := c.Get(i).(*fix.Group)
				for _, e := range ps[i].Entries {
					entry := fix.NewComponent(buildItems(t.Kids, emptyPops(t.Kids))...)
					g.AddEntry(entry.Items())
					fillEntry(t.Kids, e, entry, mode)
				}
			} else {
				c.SetGroup(i, buildItemsMode([]*node{t}, []*pop{ps[i]}, mode)[0].(*fix.Group))
			}
		}
	}
}

func (t *tmpl) message(hp, bp, tp []*pop) *fix.Message {
	if t.Gen != "" {
		return t.genMessage(hp, bp, tp)
	}
	return fix.NewMessage(t.BS, t.BL, t.CS, t.MT, t.Begin, t.MsgType).
		SetHeader(fix.NewComponent(buildItems(t.Hdr, hp)...)).
		SetBody(buildItems(t.Body, bp)...).
		SetTrailer(fix.NewComponent(buildItems(t.Trl, tp)...))
}

// pops enumerates populations: every field set/unset; groups with 0..maxEntries entries where an
// entry is any population whose first field is set (the stated precondition).  To keep the
// product finite and small, multi-entry groups combine the first and the last entry alternative
// and (maxEntries >= 3) three copies of the fullest one.
func pops(f []*node, route byte, maxEntries int) [][]*pop {
	res := [][]*pop{{}}
	for _, t := range f {
		var alts []*pop
		switch t.Kind {
		case 'k':
			alts = append(alts, &pop{}, &pop{Set: true, Val: defVal[t.Typ], Route: route})
		case 'c':
			for _, k := range pops(t.Kids, route, maxEntries) {
				alts = append(alts, &pop{Kids: k})
			}
		case 'g':
			var entryAlts [][]*pop
			for _, e := range pops(t.Kids, route, maxEntries) {
				if e[0].Set {
					entryAlts = append(entryAlts, e)
				}
			}
			alts = append(alts, &pop{})
			for _, e1 := range entryAlts {
				alts = append(alts, &pop{Entries: [][]*pop{e1}})
			}
			if len(entryAlts) > 0 && maxEntries >= 2 {
				first, last := entryAlts[0], entryAlts[len(entryAlts)-1]
				alts = append(alts, &pop{Entries: [][]*pop{clonePops(first), clonePops(last)}})
				if len(entryAlts) > 1 {
					alts = append(alts, &pop{Entries: [][]*pop{clonePops(last), clonePops(first)}})
				}
				if maxEntries >= 3 {
					alts = append(alts, &pop{Entries: [][]*pop{clonePops(last), clonePops(last), clonePops(first)}})
				}
				// two entries whose nested groups both have entries, but not the same number of them (a count
				// looked up in the wrong place finds the other entry's)
				for k := len(entryAlts) - 2; k > 0; k-- {
					if sg := entryCounts(entryAlts[k]); sg != entryCounts(last) && strings.ContainsAny(sg, "123456789") {
						alts = append(alts, &pop{Entries: [][]*pop{clonePops(entryAlts[k]), clonePops(last)}},
							&pop{Entries: [][]*pop{clonePops(last), clonePops(entryAlts[k])}})
						break
					}
				}
			}
		}
		var nr [][]*pop
		for _, r := range res {
			for _, a := range alts {
				nr = append(nr, append(append([]*pop{}, r...), a))
			}
		}
		res = nr
	}
	return res
}

// entryCounts: the numbers of entries of the groups nested in an entry, in depth-first order.
func entryCounts(ps []*pop) string {
	var b strings.Builder
	for _, p := range ps {
		switch {
		case p.Kids != nil:
			b.WriteString(entryCounts(p.Kids))
		case p.Entries != nil:
			b.WriteString(strconv.Itoa(len(p.Entries)) + "(")
			for _, e := range p.Entries {
				b.WriteString(entryCounts(e))
			}
			b.WriteString(")")
		}
	}
	return b.String()
}

func popKey(ps []*pop) string {
	var b strings.Builder
	for _, p := range ps {
		switch {
		case p.Kids != nil:
			b.WriteString("(" + popKey(p.Kids) + ")")
		case p.Entries != nil:
			b.WriteString("[")
			for _, e := range p.Entries {
				b.WriteString(popKey(e) + ";")
			}
			b.WriteString("]")
		case p.Set:
			b.WriteByte('1')
		default:
			b.WriteByte('0')
		}
	}
	return b.String()
}

// ---- template families ----

type family struct {
	budget     int
	maxEntries int
}

var typeOrders = [][]string{
	{"String", "Int", "Bool", "Float", "Uint", "Time", "Raw"},
	{"Bool", "String", "Float", "Uint", "Time", "Raw", "Int"},
	{"String", "String", "String", "String"},
	{"Float", "Uint", "Time", "Raw", "Int", "Bool", "String"},
}

var framings = [][4]string{{"8", "9", "35", "10"}, {"1008", "1009", "1035", "1010"}, {"8", "9", "35", "10"}, {"10000008", "10000009", "10000035", "10000010"}}

// templates enumerates work units: (body shape, type order, framing, header/trailer form).
func templates(budget int, visit func(idx int, t *tmpl)) int {
	idx := 0
	hdrForms := [][]*node{
		{},
		{{Kind: 'k'}},
		{{Kind: 'k'}, {Kind: 'k'}},
		{{Kind: 'k'}, {Kind: 'g', Kids: []*node{{Kind: 'k'}, {Kind: 'k'}}}},
	}
	trlForms := [][]*node{{}, {{Kind: 'k'}}}
	for si, shape := range forests(budget, 4) {
		for ti, typs := range typeOrders {
			fi := (si + ti) % len(framings)
			hf := hdrForms[(si/2+ti)%len(hdrForms)]
			tf := trlForms[(si/3+ti)%len(trlForms)]
			fr := framings[fi]
			t := &tmpl{BS: fr[0], BL: fr[1], MT: fr[2], CS: fr[3], Begin: "FIX.4.4", MsgType: "X",
				Hdr: cloneNodes(hf), Body: cloneNodes(shape), Trl: cloneNodes(tf)}
			used := map[string]bool{fr[0]: true, fr[1]: true, fr[2]: true, fr[3]: true}
			next, tix := si*3+ti*5, 0
			hpool := []string{"34", "49", "56", "627", "628", "629"}
			hn := 0
			assign(t.Hdr, hpool, &hn, used, []string{"Int", "String", "String", "Int", "String"}, new(int))
			tn := 0
			assign(t.Trl, []string{"93", "89"}, &tn, used, []string{"Int", "String"}, new(int))
			pool := tagPool
			if (si+2*ti)%5 == 4 {
				pool = tagPoolLong
			}
			assign(t.Body, pool, &next, used, typs, &tix)
			t.Unit = idx
			visit(idx, t)
			idx++
		}
	}
	return idx
}

func describe(t *tmpl) string {
	d := func(f []*node) string {
		var rec func(f []*node) string
		rec = func(f []*node) string {
			var parts []string
			for _, n := range f {
				switch n.Kind {
				case 'k':
					parts = append(parts, n.Tag+":"+n.Typ)
				case 'c':
					parts = append(parts, "C("+rec(n.Kids)+")")
				case 'g':
					parts = append(parts, "G"+n.Tag+"("+rec(n.Kids)+")")
				}
			}
			return strings.Join(parts, ",")
		}
		return rec(f)
	}
	return fmt.Sprintf("framing=%s/%s/%s/%s hdr=[%s] body=[%s] trl=[%s]", t.BS, t.BL, t.MT, t.CS, d(t.Hdr), d(t.Body), d(t.Trl))
}
