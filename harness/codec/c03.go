package main

// C03 — damaged messages are rejected.  For every base message the complete single-damage
// neighbourhood is enumerated: all substitutions (|m|·255), all interior insertions
// ((|m|-1)·256), all deletions (|m|) and all proper prefixes (|m|, including the empty one).
// Every variant is parsed from an exact-capacity slice in strict and non-strict mode.

import (
	"fmt"

	"github.com/b2broker/simplefix-go/fix/encoding"
	"github.com/b2broker/simplefix-go/session/messages"
	"vlib"
)

type baseMsg struct {
	T    *tmpl
	Data []byte
	Desc string
}

// baseMessages picks n valid messages (<= 130 bytes) that cover every framing-field digit count,
// groups, nested groups, both framing-tag sets and values containing "10=", "9=", "8=".
func baseMessages(n int) []baseMsg {
	var out []baseMsg
	seen := map[string]bool{}
	add := func(t *tmpl, hp, bp, tp []*pop) {
		m := t.message(hp, bp, tp)
		b, err, pan := safeToBytes(m)
		if err != nil || pan != "" || len(b) > 130 {
			return
		}
		// a base is whatever the library serialises (whether that is well-framed is C01's business)
		k := string(b)
		if seen[k] {
			return
		}
		seen[k] = true
		out = append(out, baseMsg{t, b, describe(t)})
	}
	// hand-picked shapes first (simplest first)
	mk := func(fr [4]string, body []*node) *tmpl {
		return &tmpl{BS: fr[0], BL: fr[1], MT: fr[2], CS: fr[3], Begin: "FIX.4.4", MsgType: "0",
			Hdr: []*node{{Kind: 'k', Tag: "34", Typ: "Int"}}, Body: body, Trl: []*node{}}
	}
	str := func(tag string) *node { return &node{Kind: 'k', Tag: tag, Typ: "String"} }
	sv := func(v string) *pop { return &pop{Set: true, Val: v, Route: 'c'} }
	h := []*pop{{Set: true, Val: "7", Route: 'c'}}
	add(mk(framings[0], []*node{str("58")}), h, []*pop{{}}, nil)                                   // 1-digit... BodyLength 10
	add(mk(framings[0], []*node{}), []*pop{{}}, nil, nil)                                             // BodyLength 5 (one digit)
	add(mk(framings[0], []*node{str("58")}), h, []*pop{sv("10=000")}, nil)                            // value containing 10=
	add(mk(framings[0], []*node{str("58"), str("59")}), h, []*pop{sv("9=5"), sv("8=FIX.4.4")}, nil) // values containing 9= and 8=
	add(mk(framings[0], []*node{str("58")}), h, []*pop{sv(longStr(90))}, nil)                         // BodyLength >= 100 (three digits)
	add(mk(framings[1], []*node{str("58")}), h, []*pop{sv("x")}, nil)                                 // long framing tags
	g := &node{Kind: 'g', Tag: "146", Kids: []*node{str("55"), {Kind: 'k', Tag: "1146", Typ: "Int"}}}
	add(mk(framings[0], []*node{g}), h, []*pop{{Entries: [][]*pop{{sv("a"), {Set: true, Val: "7", Route: 'c'}}, {sv("b"), {}}}}}, nil)
	ng := &node{Kind: 'g', Tag: "146", Kids: []*node{str("55"), {Kind: 'g', Tag: "14", Kids: []*node{str("46")}}}}
	add(mk(framings[0], []*node{ng}), h, []*pop{{Entries: [][]*pop{{sv("a"), {Entries: [][]*pop{{sv("q")}, {sv("r")}}}}}}}, nil)
	add(mk(framings[0], []*node{str("58")}), h, []*pop{sv("a\x00b")}, nil) // a NUL inside a value
	add(mk(framings[0], []*node{str("58")}), h, []*pop{sv("caf\xe9")}, nil)           // Latin-1 (invalid UTF-8)
	add(mk(framings[0], []*node{str("58")}), h, []*pop{sv("\x80\xfe\xff\xc3\xa9")}, nil) // high bytes and a valid UTF-8 pair
	// then the enumerated family, spread out over shapes, populations and value routes
	step := 0
	budget, stride := 5, 5
	if n > 1000 {
		budget, stride = 6, 2
	}
	templates(budget, func(idx int, t *tmpl) {
		if len(out) >= n {
			return
		}
		ps := pops(t.Body, 'c', 2)
		hps := pops(t.Hdr, 's', 2)
		for k := len(ps) - 1; k >= 0; k -= 1 + len(ps)/3 {
			step++
			if step%stride != 0 || len(out) >= n {
				continue
			}
			add(t, hps[len(hps)-1], ps[k], emptyPops(t.Trl))
		}
	})
	if len(out) > n {
		out = out[:n]
	}
	return out
}

type c03Replay struct {
	T       *tmpl  `json:"tmpl"`
	Variant []byte `json:"variant"`
	Kind    string `json:"kind"`
	Pos     int    `json:"pos"`
	Byte    int    `json:"byte"`
	Base    []byte `json:"base"`
	// A parser that keeps state between calls (a pooled scratch object, a cache) may accept a damaged
	// message only after certain others.  The replay therefore re-executes this worker's enumeration
	// from its start (same shard, same shard count, same bounds) up to the evaluation that failed, and
	// judges that one.
	Shard   int `json:"shard"`
	NShards int `json:"nshards"`
	NBase   int `json:"nbase"`
	Eval    int `json:"eval"` // 1-based index of the failing evaluation in this worker's sequence
}

var (
	c03Evals  int // evaluations made by this worker so far
	c03Target int // replay: the evaluation to judge (earlier ones only rebuild the history); 0 = exploring
	c03NBase  int
	c03Done   bool
)

func c03Check(R *vlib.Out, b baseMsg, v []byte, kind string, pos, bt int) {
	c03Evals++
	if c03Target > 0 && c03Evals != c03Target {
		if c03Evals < c03Target { // history only: parse as the exploration did, judge nothing
			for _, strict := range []bool{true, false} {
				p := b.T.message(emptyPops(b.T.Hdr), emptyPops(b.T.Body), emptyPops(b.T.Trl))
				data := make([]byte, len(v))
				copy(data, v)
				if safeUnmarshal(p, data, strict) == nil {
					return // the exploration stopped at the first acceptance too
				}
			}
			for _, strict := range []bool{true, false} {
				p := b.T.message(emptyPops(b.T.Hdr), emptyPops(b.T.Body), emptyPops(b.T.Trl))
				if safeUnmarshal(p, append([]byte{}, b.Data...), strict) != nil {
					break
				}
				data := make([]byte, len(v))
				copy(data, v)
				if safeUnmarshal(p, data, strict) == nil {
					return
				}
			}
		}
		return
	}
	if c03Target > 0 {
		c03Done = true
	}
	R.Eval()
	hist := c03Replay{Shard: *vlib.Shard, NShards: *vlib.NShards, NBase: c03NBase, Eval: c03Evals}
	for _, strict := range []bool{true, false} {
		p := b.T.message(emptyPops(b.T.Hdr), emptyPops(b.T.Body), emptyPops(b.T.Trl))
		data := make([]byte, len(v)) // exact capacity: any over-read faults or reads zeroes, never stale bytes
		copy(data, v)
		err := safeUnmarshal(p, data, strict)
		if err == nil {
			sig := c03sig(b, v, kind, pos, bt)
			R.Violate(sig, fmt.Sprintf("strict=%v accepted %s  (base %s; %s at %d byte 0x%02x)", strict, vlib.Show(v), vlib.Show(b.Data), kind, pos, bt),
				c03Replay{b.T, v, kind, pos, bt, b.Data, hist.Shard, hist.NShards, hist.NBase, hist.Eval})
			return
		}
		if len(err.Error()) >= 5 && err.Error()[:5] == "PANIC" {
			R.Violate("panic:"+kind, fmt.Sprintf("strict=%v %q: %v", strict, v, err), c03Replay{b.T, v, kind, pos, bt, b.Data, hist.Shard, hist.NShards, hist.NBase, hist.Eval})
			return
		}
	}
	// the same variant parsed into a message object that has been used before (it holds the fields of the
	// intact message from an earlier, successful parse): a caller may keep one object per connection
	for _, strict := range []bool{true, false} {
		p := b.T.message(emptyPops(b.T.Hdr), emptyPops(b.T.Body), emptyPops(b.T.Trl))
		if safeUnmarshal(p, append([]byte{}, b.Data...), strict) != nil {
			break // the base itself does not parse into this template: nothing to reuse
		}
		data := make([]byte, len(v))
		copy(data, v)
		if err := safeUnmarshal(p, data, strict); err == nil {
			sig := "reused-object:" + c03sig(b, v, kind, pos, bt)
			R.Violate(sig, fmt.Sprintf("strict=%v accepted %s into a message object that had parsed the intact message before (base %s; %s at %d byte 0x%02x)", strict, vlib.Show(v), vlib.Show(b.Data), kind, pos, bt),
				c03Replay{b.T, v, kind, pos, bt, b.Data, hist.Shard, hist.NShards, hist.NBase, hist.Eval})
			return
		}
	}
	// the same variant through an unmarshaller whose field validator is the application's own (a decorator around the
	// default one, as an application adding a rule writes it): the integrity check is not the validator's business
	if c03Evals%3 == 0 {
		for _, strict := range []bool{true, false} {
			p := b.T.message(emptyPops(b.T.Hdr), emptyPops(b.T.Body), emptyPops(b.T.Trl))
			data := make([]byte, len(v))
			copy(data, v)
			var err error
			func() {
				defer func() {
					if r := recover(); r != nil {
						err = fmt.Errorf("PANIC %v", r)
					}
				}()
				err = (&encoding.DefaultUnmarshaller{Strict: strict, Validator: decoratedValidator{}}).Unmarshal(p, data)
			}()
			if err == nil {
				sig := "application-validator:" + c03sig(b, v, kind, pos, bt)
				R.Violate(sig, fmt.Sprintf("strict=%v accepted %s through a DefaultUnmarshaller with an application validator (base %s; %s at %d byte 0x%02x)", strict, vlib.Show(v), vlib.Show(b.Data), kind, pos, bt),
					c03Replay{b.T, v, kind, pos, bt, b.Data, hist.Shard, hist.NShards, hist.NBase, hist.Eval})
				return
			}
		}
	}
	R.Outcome("rejected:" + kind)
}

// decoratedValidator wraps the default field validator (and adds nothing): it implements Do and only Do.
type decoratedValidator struct{ inner encoding.DefaultValidator }

func (d decoratedValidator) Do(msg messages.Builder) error { return d.inner.Do(msg) }

// c03sig names the damage class of an accepted variant: kind, the field it hit, and the byte when
// that matters.
func c03sig(b baseMsg, v []byte, kind string, pos, bt int) string {
	region := regionOf(b, pos)
	s := fmt.Sprintf("accepted:%s-in-%s", kind, region)
	if kind == "insert" || kind == "substitute" {
		s += fmt.Sprintf("-0x%02x", bt)
	}
	if integrity(v, b.T.BS, b.T.BL, b.T.MT, b.T.CS, false) != "" {
		s += "/integrity-violated"
	}
	return s
}

func regionOf(b baseMsg, pos int) string {
	// field index and whether pos lies in the tag, on '=', in the value or on the delimiter
	i, fieldNo, start := 0, 0, 0
	for i < len(b.Data) {
		j := i
		for j < len(b.Data) && b.Data[j] != 1 {
			j++
		}
		if pos >= i && pos <= j {
			start = i
			break
		}
		i = j + 1
		fieldNo++
	}
	name := fmt.Sprintf("field%d", fieldNo)
	switch fieldNo {
	case 0:
		name = "BeginString"
	case 1:
		name = "BodyLength"
	case 2:
		name = "MsgType"
	}
	// last field?
	last := len(b.Data) - 1
	k := last - 1
	for k >= 0 && b.Data[k] != 1 {
		k--
	}
	if pos > k {
		name = "CheckSum"
	}
	eq := start
	for eq < len(b.Data) && b.Data[eq] != '=' && b.Data[eq] != 1 {
		eq++
	}
	switch {
	case pos < eq:
		return name + "-tag"
	case pos == eq:
		return name + "-equals"
	case pos < len(b.Data) && b.Data[pos] == 1:
		return name + "-delimiter"
	}
	return name + "-value"
}

func enumC03(R *vlib.Out, nbase int) {
	c03NBase = nbase
	bases := baseMessages(nbase)
	R.Bounds["base_messages"] = len(bases)
	unit := 0
	for bi, b := range bases {
		if bi < 6 {
			R.Sample(6, map[string]string{"base": vlib.Show(b.Data), "template": b.Desc})
		}
		m := b.Data
		R.ClassD(fmt.Sprintf("base%d", bi) + "/x" + fmt.Sprint(*vlib.Shard))
		for pos := 0; pos <= len(m); pos++ {
			unit++
			if !vlib.Mine(unit) {
				continue
			}
			if c03Done {
				return
			}
			if c03Target == 0 && vlib.Expired() {
				R.Cap("deadline")
				return
			}
			R.ClassD(fmt.Sprintf("base%d/pos%d", bi, pos))
			if pos < len(m) {
				// substitutions
				for c := 0; c < 256; c++ {
					if byte(c) == m[pos] {
						continue
					}
					v := append([]byte{}, m...)
					v[pos] = byte(c)
					c03Check(R, b, v, "substitute", pos, c)
				}
				// deletion
				v := append(append([]byte{}, m[:pos]...), m[pos+1:]...)
				c03Check(R, b, v, "delete", pos, int(m[pos]))
				// proper prefix of length pos
				c03Check(R, b, append([]byte{}, m[:pos]...), "prefix", pos, 0)
			}
			if pos >= 1 && pos <= len(m)-1 {
				// interior insertion before m[pos]
				for c := 0; c < 256; c++ {
					v := make([]byte, 0, len(m)+1)
					v = append(v, m[:pos]...)
					v = append(v, byte(c))
					v = append(v, m[pos:]...)
					c03Check(R, b, v, "insert", pos, c)
				}
			}
		}
	}
}

func replayC03(R *vlib.Out) {
	var rp c03Replay
	vlib.LoadReplay(&rp)
	if rp.Eval > 0 && rp.NShards > 0 {
		*vlib.Shard, *vlib.NShards = rp.Shard, rp.NShards
		c03Target = rp.Eval
		enumC03(R, rp.NBase)
		if !c03Done {
			vlib.Fatal("C03 replay: evaluation %d was not reached (worker made %d)", rp.Eval, c03Evals)
		}
		return
	}
	c03Check(R, baseMsg{rp.T, rp.Base, describe(rp.T)}, rp.Variant, rp.Kind, rp.Pos, rp.Byte)
}
