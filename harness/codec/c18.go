package main

// C18 — a tag is recognised only at a field boundary.  Messages are built by the harness'
// reference encoder from the field list of a population plus decoys: values that contain
// "<tag>=" text and extra fields whose tag numbers have a template tag as a proper decimal
// prefix/suffix.  Oracles: encoding.Unmarshal yields exactly the population; fix.ValueByTag
// equals the reference lookup (first field whose whole tag matches) for every tag.

import (
	"bytes"
	"fmt"

	"github.com/b2broker/simplefix-go/fix"
	"vlib"
)

type c18Replay struct {
	T          *tmpl   `json:"tmpl"`
	Hp, Bp, Tp []*pop  `json:"-"`
	HpJ        []*pop  `json:"hp"`
	BpJ        []*pop  `json:"bp"`
	TpJ        []*pop  `json:"tp"`
	Decoy      *field  `json:"decoy,omitempty"`
	DecoyPos   string  `json:"decoy_pos,omitempty"`
	Lookup     string  `json:"lookup,omitempty"`
}

func decoyTags(t string) []string {
	out := []string{"1" + t, t + "1", "9" + t, t + "0"}
	if len(t) > 1 {
		out = append(out, t[1:], t[:len(t)-1])
	}
	return out
}

func safeValueByTag(msg []byte, tag string) (v []byte, err error, pan string) {
	defer func() {
		if r := recover(); r != nil {
			pan = fmt.Sprint(r)
		}
	}()
	v, err = fix.ValueByTag(msg, tag)
	return
}

func enumC18(R *vlib.Out, budget int) {
	R.Bounds["node_budget"] = budget
	stop := false
	total := templates(budget, func(idx int, t *tmpl) {
		if stop || !vlib.Mine(idx) {
			return
		}
		if vlib.Expired() {
			R.Cap("deadline")
			stop = true
			return
		}
		tags := allTags(t)
		tags = append(tags, "34")
		inTemplate := map[string]bool{}
		for _, tg := range tags {
			inTemplate[tg] = true
		}
		hpsAll := pops(t.Hdr, 's', 2)
		hp := hpsAll[len(hpsAll)-1]
		tp := emptyPops(t.Trl) // the trailer never reaches the wire (C17 known finding); not C18's subject
		for _, bp := range pops(t.Body, 'p', 2) {
			// (iii) genuine field / group present or absent: all populations
			c18One(R, t, hp, bp, tp, nil, "", tags)
			// (ii) decoy fields before / after
			for _, tg := range tags {
				for _, d := range decoyTags(tg) {
					if inTemplate[d] || d == "" {
						continue
					}
					for _, pos := range []string{"before", "after"} {
						c18One(R, t, hp, bp, tp, &field{d, "z"}, pos, append(tags, d))
					}
				}
			}
			// (i) tag-like text inside values of String/Raw fields
			var ls []leafRef
			setLeaves(t.Body, bp, &ls)
			for _, l := range ls {
				if l.n.Typ != "String" && l.n.Typ != "Raw" {
					continue
				}
				old := l.p.Val
				for _, tg := range tags {
					for _, v := range []string{tg + "=", tg + "=1", "x" + tg + "=2", "y\x02" + tg + "=", "=" + tg + "="} {
						l.p.Val = v
						c18One(R, t, hp, bp, tp, nil, "", tags)
					}
				}
				l.p.Val = old
			}
		}
	})
	R.Bounds["template_units_total"] = total
}

func c18One(R *vlib.Out, t *tmpl, hp, bp, tp []*pop, decoy *field, pos string, tags []string) {
	R.Eval()
	rp := c18Replay{T: t, HpJ: hp, BpJ: bp, TpJ: tp, Decoy: decoy, DecoyPos: pos}
	var inner []field
	inner = append(inner, field{t.MT, t.MsgType})
	if decoy != nil && pos == "before" {
		inner = append(inner, *decoy)
	}
	refFields(t.Hdr, hp, &inner)
	refFields(t.Body, bp, &inner)
	refFields(t.Trl, tp, &inner)
	if decoy != nil && pos == "after" {
		inner = append(inner, *decoy)
	}
	msg := encode(t.BS, t.Begin, t.BL, t.CS, inner)
	all, _ := tokenize(msg)
	// oracle 1: parse result equals the population
	for _, strict := range []bool{true, false} {
		p := t.message(emptyPops(t.Hdr), emptyPops(t.Body), emptyPops(t.Trl))
		data := make([]byte, len(msg))
		copy(data, msg)
		if err := safeUnmarshal(p, data, strict); err != nil {
			R.Violate(c18sig(parseErrSig(err), decoy, t, hp, bp, tp), fmt.Sprintf("strict=%v %s -> %v  %s", strict, vlib.Show(msg), err, describe(t)), rp)
			return
		}
		d := cmpItems(t.Hdr, hp, p.Header().Items(), false)
		if d == "" {
			d = cmpItems(t.Body, bp, p.Body(), false)
		}
		if d != "" {
			R.Violate(c18sig("parsed-wrong:"+d, decoy, t, hp, bp, tp), fmt.Sprintf("strict=%v %s  %s", strict, vlib.Show(msg), describe(t)), rp)
			return
		}
	}
	// oracle 2: ValueByTag = reference lookup
	for _, tg := range tags {
		want, present := lookup(all, tg)
		got, err, pan := safeValueByTag(msg, tg)
		rp.Lookup = tg
		if pan != "" {
			R.Violate("ValueByTag-panic", fmt.Sprintf("tag %s in %s: %s", tg, vlib.Show(msg), pan), rp)
			return
		}
		if present && (err != nil || !bytes.Equal(got, []byte(want))) {
			R.Violate("ValueByTag-wrong-value", fmt.Sprintf("tag %s in %s: got %q err %v want %q", tg, vlib.Show(msg), got, err, want), rp)
			return
		}
		if !present && err == nil {
			R.Violate("ValueByTag-found-absent-tag", fmt.Sprintf("tag %s in %s: got %q", tg, vlib.Show(msg), got), rp)
			return
		}
	}
	kind := "plain"
	if decoy != nil {
		kind = "decoy-" + pos
	} else if hasTagLikeValue(t, bp) {
		kind = "taglike-value"
	}
	R.ClassD(unitKey(t) + typedKey(t.Body) + "/" + popKey(bp) + "/" + kind + "/" + valKey(hp, bp, tp, t) + fmt.Sprint(decoy))
	R.Outcome(kind)
	R.Sample(5, map[string]string{"template": describe(t), "bytes": vlib.Show(msg), "kind": kind})
}

func hasTagLikeValue(t *tmpl, bp []*pop) bool {
	var ls []leafRef
	setLeaves(t.Body, bp, &ls)
	for _, l := range ls {
		if bytes.Contains([]byte(l.p.Val), []byte("=")) {
			return true
		}
	}
	return false
}

func c18sig(base string, decoy *field, t *tmpl, hp, bp, tp []*pop) string {
	if groupStartShadowed(t, hp, bp, tp) || decoy != nil && base == "parse-error:wrong-items-count" {
		if base == "parse-error:wrong-items-count" || len(base) > 12 && base[:12] == "parsed-wrong" {
			return "group-start-unanchored"
		}
	}
	return base
}

func replayC18(R *vlib.Out) {
	var rp c18Replay
	vlib.LoadReplay(&rp)
	tags := append(allTags(rp.T), "34")
	if rp.Decoy != nil {
		tags = append(tags, rp.Decoy.Tag)
	}
	c18One(R, rp.T, rp.HpJ, rp.BpJ, rp.TpJ, rp.Decoy, rp.DecoyPos, tags)
}
