package main

// Free-running side of the conformance check: real goroutines, real clock, unmodified repository.

import (
	"encoding/json"
	"os"
	"sync"
	"time"
)

type realEnv struct{ mu sync.Mutex }

func (e *realEnv) Settle()               { time.Sleep(120 * time.Millisecond) }
func (e *realEnv) Sleep(d time.Duration) { time.Sleep(d) }
func (e *realEnv) Spawn(f func())        { go f() }
func (e *realEnv) Lock()                 { e.mu.Lock() }
func (e *realEnv) Unlock()               { e.mu.Unlock() }

func main() {
	out := map[string][]string{}
	for _, role := range []string{"acc", "ini"} {
		for _, v := range []string{"untimed", "timed"} {
			out[role+"/"+v] = confScenario(&realEnv{}, role, v)
		}
	}
	_ = json.NewEncoder(os.Stdout).Encode(out)
}
