package main

// Conformance scenarios: the SAME source is compiled twice — once rewritten onto the controlled
// scheduler (virtual clock, Settle = exact quiescence) and once as it is against the untouched
// repository with the real Go scheduler and the real clock (Settle = "no new output for a while").
// The normalised outbound message sequences of the two runs must be identical.  This validates the
// source rewriter and the vsched shims (channels, select, mutexes, context, timers) against the
// free-running implementation on concrete traces.

import (
	"context"
	"fmt"
	"strconv"
	"strings"
	"time"

	simplefixgo "github.com/b2broker/simplefix-go"
	"github.com/b2broker/simplefix-go/session"
	"github.com/b2broker/simplefix-go/session/messages"
	"github.com/b2broker/simplefix-go/storages/memory"
	fixgen "github.com/b2broker/simplefix-go/tests/fix44"
)

type confEnv interface {
	Settle()               // wait until the system has finished reacting
	Sleep(d time.Duration) // let (virtual or real) time pass
	Spawn(f func())        // start a task / goroutine
	Lock()
	Unlock()
}

func confOpts() *session.Opts {
	return &session.Opts{
		MessageBuilders: session.MessageBuilders{
			HeaderBuilder: fixgen.Header{}.New(), TrailerBuilder: fixgen.Trailer{}.New(), LogonBuilder: fixgen.Logon{}.New(),
			LogoutBuilder: fixgen.Logout{}.New(), RejectBuilder: fixgen.Reject{}.New(), HeartbeatBuilder: fixgen.Heartbeat{}.New(),
			TestRequestBuilder: fixgen.TestRequest{}.New(), ResendRequestBuilder: fixgen.ResendRequest{}.New(),
		},
		Tags:                    &messages.Tags{MsgType: 35, MsgSeqNum: 34, HeartBtInt: 108, EncryptedMethod: 98},
		AllowedEncryptedMethods: map[string]struct{}{"0": {}},
		SessionErrorCodes:       &messages.SessionErrorCodes{IncorrectValue: 5, Other: 99, RequiredTagMissing: 1},
	}
}

func confRaw(sender, target, mt string, seq int, fields ...string) []byte {
	body := "35=" + mt + "\x0149=" + sender + "\x0156=" + target + "\x0134=" + strconv.Itoa(seq) + "\x0152=20240101-00:00:00.000\x01"
	for _, f := range fields {
		body += f + "\x01"
	}
	head := "8=FIX.4.4\x019=" + strconv.Itoa(len(body)) + "\x01"
	sum := 0
	for _, b := range []byte(head + body) {
		sum += int(b)
	}
	return []byte(fmt.Sprintf("%s%s10=%03d\x01", head, body, sum%256))
}

// confNorm drops the fields that depend on the clock (SendingTime, and with it CheckSum).
func confNorm(m []byte) string {
	var keep []string
	for _, f := range strings.Split(strings.TrimSuffix(string(m), "\x01"), "\x01") {
		if strings.HasPrefix(f, "52=") || strings.HasPrefix(f, "10=") {
			continue
		}
		keep = append(keep, f)
	}
	return strings.Join(keep, "|")
}

// confScenario runs one scripted session and returns the normalised outbound messages.
func confScenario(env confEnv, role, variant string) []string {
	var h *simplefixgo.DefaultHandler
	var s *session.Session
	st := memory.NewStorage()
	peer, self := "CLI", "SRV"
	hb := 30
	if variant == "timed" {
		hb = 1
	}
	var err error
	if role == "ini" {
		peer, self = "SRV", "CLI"
		h = simplefixgo.NewInitiatorHandler(context.Background(), "35", 10)
		s, err = session.NewInitiatorSession(h, confOpts(), &session.LogonSettings{TargetCompID: peer, SenderCompID: self, HeartBtInt: hb, EncryptMethod: "0", CloseTimeout: time.Second}, st, st)
	} else {
		h = simplefixgo.NewAcceptorHandler(context.Background(), "35", 10)
		s, err = session.NewAcceptorSession(confOpts(), h, &session.LogonSettings{LogonTimeout: 30 * time.Second, HeartBtLimits: &session.IntLimits{Min: 1, Max: 60}, CloseTimeout: time.Second},
			func(*session.LogonSettings) error { return nil }, st, st)
	}
	if err != nil {
		panic(err)
	}
	var outs []string
	env.Spawn(func() {
		for {
			select {
			case m, ok := <-h.Outgoing():
				if !ok {
					return
				}
				env.Lock()
				outs = append(outs, confNorm(m))
				env.Unlock()
			case <-h.Context().Done():
				return
			}
		}
	})
	_ = s.Run()
	env.Spawn(func() { _ = h.Run() })
	env.Settle()
	seq := 1
	in := func(mt string, f ...string) {
		h.ServeIncoming(confRaw(peer, self, mt, seq, f...))
		seq++
		env.Settle()
	}
	in("A", "98=0", "108="+strconv.Itoa(hb))
	if variant == "timed" {
		env.Sleep(600 * time.Millisecond)
		in("0")
		env.Sleep(700 * time.Millisecond) // t = 1.3 s: one unsolicited Heartbeat went out at 1.0 s
		env.Settle()
		in("1", "112=timed")              // t = 1.3 s: echo
		env.Sleep(1300 * time.Millisecond) // t = 2.6 s: next unsolicited Heartbeat at 2.3 s
		env.Settle()
		in("5")
	} else {
		in("1", "112=conf=1")
		_ = s.Send(fixgen.NewMarketDataRequest().SetMDReqID("a"))
		_ = s.Send(fixgen.NewMarketDataRequest().SetMDReqID("b"))
		env.Settle()
		in("2", "7=2", "16=3")
		h.ServeIncoming(append(confRaw(peer, self, "0", seq)[:20], []byte("garbage\x0110=000\x01")...)) // damaged: Reject
		seq++
		env.Settle()
		in("A", "98=0", "108=30") // Logon while logged on: Reject
		in("2", "7=1", "16=0")
		in("D", "11=x")
		in("5")
		in("0") // after logout: Reject
	}
	env.Settle()
	h.Stop()
	env.Settle()
	env.Lock()
	defer env.Unlock()
	return append([]string{}, outs...)
}
