package main

// C05 — outbound messages are numbered 1,2,3,... with no gap, duplicate or reordering under
// concurrent senders.  Schedule exploration (preemption bounding) of: G application sender tasks
// x M messages, concurrently with the session's own replies on the inbound dispatch task
// (TestRequest -> Heartbeat, damaged message -> Reject) and with the heartbeat timer expiring
// (early-timer deviations, loose virtual time); out-buffer sizes 0/1/10; stores and an outgoing
// handler that yield to the scheduler inside the call (arbitrary delays in application code);
// both roles; then a second session continuing on the same counter store.

import (
	"fmt"
	"github.com/b2broker/simplefix-go/session/messages"
	"strconv"
	"strings"
	"time"

	simplefixgo "github.com/b2broker/simplefix-go"
	"github.com/b2broker/simplefix-go/fix"
	"github.com/b2broker/simplefix-go/session"
	"github.com/b2broker/simplefix-go/storages/memory"
	fixgen "github.com/b2broker/simplefix-go/tests/fix44"
	"vlib"
	"vsched"
)

// yieldStore wraps the memory store: every call yields to the scheduler first.
type yieldStore struct{ *memory.Storage }

func (y yieldStore) GetNextSeqNum(id fix.StorageID) (int, error) {
	vsched.Preempt()
	n, err := y.Storage.GetNextSeqNum(id)
	vsched.Preempt()
	return n, err
}
func (y yieldStore) Save(id fix.StorageID, m simplefixgo.SendingMessage, seq int) error {
	vsched.Preempt()
	return y.Storage.Save(id, m, seq)
}

// slowCounter: a counter store that takes (virtual) time - a database round trip - to hand out a number.  Senders
// queue up behind it; a sending time taken before the number is assigned is then visibly older than the send.
type slowCounter struct{ *memory.Storage }

func (y slowCounter) GetNextSeqNum(id fix.StorageID) (int, error) {
	n, err := y.Storage.GetNextSeqNum(id)
	time.Sleep(5 * time.Millisecond)
	return n, err
}

func pint(p map[string]any, k string) int {
	switch v := p[k].(type) {
	case int:
		return v
	case float64:
		return int(v)
	}
	return 0
}
func pstr(p map[string]any, k string) string { s, _ := p[k].(string); return s }

type c05Obs struct {
	outs     []outMsg
	first    int
	n        int
	self     string
	peer     string
	tStart   time.Duration
	tEnd     time.Duration
	assign   string
	sendErrs int
	strict   bool
	shared   messages.Message // the object one sender sent repeatedly (same-object scenarios)
	outs2    []outMsg         // ... and what a second session put on the wire for it
	self2    string
	peer2    string
}

func c05Scenario(name string, p map[string]any) *schedScenario {
	role, buf, G, M, extra := pstr(p, "role"), pint(p, "buf"), pint(p, "G"), pint(p, "M"), pstr(p, "extra")
	var obs c05Obs
	sc := &schedScenario{Name: "c05", Params: p, Strict: extra != "hb", Delay: false}
	sc.Body = func() {
		obs = c05Obs{}
		var w *world
		st := memory.NewStorage()
		vsched.Deterministic(func() {
			hb := 30
			if extra == "hb" {
				hb = 1
			}
			var cs session.CounterStorage = yieldStore{st}
			if extra == "slow-counter" {
				cs = slowCounter{st}
			}
			w = newWorld(wcfg{Role: role, Buf: buf, HbMin: 1, HbMax: 60, HbInt: hb, Store: st, CS: cs, MS: yieldStore{st}})
			w.h.HandleOutgoing(simplefixgo.AllMsgTypes, func(m simplefixgo.SendingMessage) bool { vsched.Preempt(); return true })
			w.logonOK(hb)
			if extra == "second-session" {
				// an earlier session used the same counter store: this one must continue from it
				_ = w.s.Send(fixgen.NewMarketDataRequest().SetMDReqID("earlier"))
				vsched.Settle()
				w.h.Stop()
				vsched.Settle()
				w = newWorld(wcfg{Role: role, Buf: buf, HbMin: 1, HbMax: 60, HbInt: hb, Store: st, CS: yieldStore{st}, MS: yieldStore{st}})
				w.logonOK(hb)
			}
			if extra == "hb" {
				time.Sleep(950 * time.Millisecond)
			} else {
				time.Sleep(1500 * time.Millisecond)
			}
			vsched.Settle()
		})
		obs.first = len(w.outs) + 1
		if extra == "second-session" {
			obs.first = seqOf(w.outs[len(w.outs)-1].Msg) + 1
		}
		w.take()
		obs.tStart = vsched.NowOffset()
		done := make(chan int, G)
		for g := 0; g < G; g++ {
			g := g
			go func() {
				shared := fixgen.NewMarketDataRequest().SetMDReqID(fmt.Sprintf("g%dshared", g))
				if g == 0 {
					obs.shared = shared
				}
				for m := 0; m < M; m++ {
					msg := fixgen.NewMarketDataRequest().SetMDReqID(fmt.Sprintf("g%dm%d", g, m))
					if extra == "same-object" {
						msg = shared // one message object sent again and again (as the repository's own high-load test does)
						if m > 0 && buf > 1 {
							time.Sleep(7 * time.Millisecond) // ... later: each transmission carries its own send time
						}
					}
					if err := w.s.Send(msg); err != nil {
						obs.sendErrs++
					}
				}
				done <- g
			}()
		}
		switch extra {
		case "stalled-writer":
			// the peer stops reading for 3.5 s (well inside any write deadline) while the senders fill the queue, then
			// reads on: every number handed out is on the wire, in order
			w.hold = true
			go func() {
				time.Sleep(3500 * time.Millisecond)
				w.hold = false
				w.release <- struct{}{}
			}()
		case "testreq":
			w.h.ServeIncoming(w.msg("1", "112=concurrent"))
		case "reject":
			w.h.ServeIncoming(badChecksum(w.msg("0")))
		}
		for g := 0; g < G; g++ {
			<-done
		}
		if extra == "hb" {
			time.Sleep(300 * time.Millisecond)
		}
		vsched.Settle()
		obs.tEnd = vsched.NowOffset()
		obs.outs = w.take()
		obs.self, obs.peer = w.self, w.peer
		obs.n = G * M
		obs.strict = extra != "hb" && extra != "stalled-writer"
		if extra == "same-object" && obs.shared != nil {
			// the same object goes out through a second session with other identifiers
			other := "ini"
			if role == "ini" {
				other = "acc"
			}
			var w2 *world
			vsched.Deterministic(func() {
				w2 = newWorld(wcfg{Role: other, Buf: buf, HbMin: 1, HbMax: 60, HbInt: 30})
				w2.logonOK(30)
			})
			w2.take()
			time.Sleep(3 * time.Millisecond)
			if err := w2.s.Send(obs.shared); err != nil {
				obs.sendErrs++
			}
			vsched.Settle()
			obs.outs2 = w2.take()
			obs.self2, obs.peer2 = w2.self, w2.peer
		}
		for _, o := range obs.outs {
			if id, ok := get(o.Msg, "262"); ok {
				obs.assign += id + ","
			} else {
				obs.assign += typeName(mtype(o.Msg)) + ","
			}
		}
	}
	sc.Check = func(r *vsched.Result) (string, string) {
		if obs.sendErrs > 0 {
			return "send-error", fmt.Sprint(obs.sendErrs)
		}
		app := 0
		prevT := time.Duration(-1)
		for i, o := range obs.outs {
			if !wellFormed(o.Msg) {
				return "malformed-outbound", show(o.Msg)
			}
			if q := seqOf(o.Msg); q != obs.first+i {
				kind := "gap"
				if q < obs.first+i {
					kind = "duplicate-or-reordered"
				}
				return "numbering:" + kind, fmt.Sprintf("position %d carries MsgSeqNum %d, want %d; wire order: %s", i, q, obs.first+i, obs.assign)
			}
			if s, _ := get(o.Msg, "49"); s != obs.self {
				return "wrong-sender-comp-id", show(o.Msg)
			}
			if s, _ := get(o.Msg, "56"); s != obs.peer {
				return "wrong-target-comp-id", show(o.Msg)
			}
			ts, _ := get(o.Msg, "52")
			tm, err := time.Parse("20060102-15:04:05.000", ts)
			if err != nil {
				return "sending-time-format", ts
			}
			off := tm.Sub(vsched.Epoch)
			if off < obs.tStart || off > obs.tEnd || off < prevT {
				return "sending-time-not-send-time", fmt.Sprintf("52=%s (+%v) outside [%v,%v] or before the previous message's (+%v)", ts, off, obs.tStart, obs.tEnd, prevT)
			}
			if obs.strict && off != o.At {
				// strict virtual time: a message reaches the wire at the instant it is sent
				return "sending-time-not-send-time", fmt.Sprintf("52=%s (+%v) on a message sent at +%v", ts, off, o.At)
			}
			prevT = off
			if mtype(o.Msg) == "V" {
				app++
			}
		}
		if app != obs.n {
			return "application-message-lost-or-duplicated", fmt.Sprintf("%d of %d on the wire: %s", app, obs.n, obs.assign)
		}
		for _, o := range obs.outs2 {
			if !wellFormed(o.Msg) {
				return "malformed-outbound", show(o.Msg)
			}
			if s, _ := get(o.Msg, "49"); s != obs.self2 {
				return "wrong-sender-comp-id", "second session: " + show(o.Msg)
			}
			if s, _ := get(o.Msg, "56"); s != obs.peer2 {
				return "wrong-target-comp-id", "second session: " + show(o.Msg)
			}
			ts, _ := get(o.Msg, "52")
			if tm, err := time.Parse("20060102-15:04:05.000", ts); err != nil || tm.Sub(vsched.Epoch) != o.At {
				return "sending-time-not-send-time", fmt.Sprintf("second session: 52=%s on a message sent at +%v", ts, o.At)
			}
		}
		if obs.shared != nil && len(obs.outs2) != 1 && obs.self2 != "" {
			return "application-message-lost-or-duplicated", fmt.Sprintf("second session: %d messages on the wire", len(obs.outs2))
		}
		return "", ""
	}
	sc.Outcome = func() string { return strconv.Itoa(len(obs.outs)) + ":" + obs.assign }
	return sc
}

// ---- C05, history part: over all short histories of the logon protocol alphabet (pre-logon rejects,
// refused and accepted logons, logouts, re-logons, resend requests, local sends) every message handed to
// the connection carries the next number, retransmissions (byte-identical repeats of an earlier message
// after a ResendRequest) aside.

type seqMon struct {
	next int
	sent map[int]string
	ids  [2]string // accepting side: identifiers established by the last answered Logon
}

func (m *seqMon) Key() string { return fmt.Sprint(m.next) }

func (m *seqMon) Step(w *world, ev event, outs []outMsg) (string, string) {
	if w.cfg.Role == "acc" {
		// session identifiers: every message since the last Logon the session answered with a Logon carries the
		// identifiers that Logon established (mirrored from the peer's header)
		for _, o := range outs {
			if prev, ok := m.sent[seqOf(o.Msg)]; ok && prev == string(o.Msg) {
				continue // a byte-identical retransmission keeps the identifiers it was first sent with
			}
			if mtype(o.Msg) == "A" && strings.HasPrefix(ev.Name, "Logon(") {
				m.ids = [2]string{w.self, w.peer}
				if strings.Contains(ev.Name, "other-ids") {
					m.ids = [2]string{"DESK", "OTHER"}
				}
			}
			if m.ids[0] == "" || !w.s.IsLogged() && mtype(o.Msg) == "3" {
				continue // (a Reject to somebody who is not logged on is addressed to that somebody)
			}
			snd, _ := get(o.Msg, "49")
			tgt, _ := get(o.Msg, "56")
			if snd != m.ids[0] || tgt != m.ids[1] {
				return "history-identifiers", fmt.Sprintf("after %s: %s carries 49=%s 56=%s, the last answered Logon established %s -> %s", ev.Name, typeName(mtype(o.Msg)), snd, tgt, m.ids[0], m.ids[1])
			}
		}
		if !w.s.IsLogged() {
			// the logon that established the identifiers is over (or suspended): whoever logs on next - or is refused
			// next - is answered with the identifiers of its own Logon, and C05 says nothing about what a session
			// that is not logged on mirrors in between
			m.ids = [2]string{}
		}
	}
	for _, o := range outs {
		q := seqOf(o.Msg)
		if q == m.next {
			m.sent[q] = string(o.Msg)
			m.next++
			continue
		}
		if prev, ok := m.sent[q]; ok && prev == string(o.Msg) && strings.HasPrefix(ev.Name, "ResendRequest") {
			continue // a retransmission requested by the peer
		}
		kind := "gap"
		if q < m.next {
			kind = "duplicate-or-restart"
		}
		return "history-numbering:" + kind, fmt.Sprintf("after %s: outbound %s carries MsgSeqNum %d, expected %d", ev.Name, typeName(mtype(o.Msg)), q, m.next)
	}
	return "", ""
}

func c05HistCfgs(tier string) []*histCfg {
	var cfgs []*histCfg
	depth := 3
	if tier == "thorough" {
		depth = 4
	}
	for _, role := range []string{"acc", "ini"} {
		role := role
		pevs := protoAlphabet(role, "C06")
		var alpha []event
		for _, e := range pevs {
			alpha = append(alpha, e.event)
		}
		cfgs = append(cfgs, &histCfg{
			Name: "c05hist/" + role, Alphabet: alpha, Depth: depth,
			World: func() *world {
				return newWorld(wcfg{Role: role, Buf: 10, HbMin: 5, HbMax: 30, HbInt: 30,
					RefuseLogon: func(r *session.LogonSettings) error {
						if r.Username == "bad" {
							return errRefused
						}
						return nil
					}})
			},
			NewMon: func(w *world) monitor {
				m := &seqMon{next: 1, sent: map[int]string{}}
				for _, o := range w.outs { // the initiator's Logon left during construction
					m.sent[seqOf(o.Msg)] = string(o.Msg)
					m.next = seqOf(o.Msg) + 1
				}
				return m
			},
		})
	}
	return cfgs
}

func runC05(R *vlib.Out) {
	if *vlib.ReplayPath != "" {
		var probe struct {
			Cfg string `json:"cfg"`
		}
		vlib.LoadReplay(&probe)
		if probe.Cfg == "c05ids" {
			var c c05iCase
			vlib.LoadReplay(&c)
			R.Eval()
			if sig, d, _ := execBody(func() (string, string) { return c05iRun(c) }); sig != "" {
				R.Violate(sig, d, c)
			}
			return
		}
		if probe.Cfg == "c05time" {
			var c c05tCase
			vlib.LoadReplay(&c)
			R.Eval()
			if sig, d, _ := execBody(func() (string, string) { return c05tRun(c) }); sig != "" {
				R.Violate(sig, d, c)
			}
			return
		}
		if strings.HasPrefix(probe.Cfg, "c05hist/") {
			replayHist(R, c05HistCfgs(*vlib.Tier))
			return
		}
		replaySched(R, c05Scenario)
		finishSched(R)
		return
	}
	if !runC05time(R) || !runC05ids(R) {
		return
	}
	for _, c := range c05HistCfgs(*vlib.Tier) {
		saved := vsched.TrackStates
		vsched.TrackStates = false
		exploreHist(R, c)
		vsched.TrackStates = saved
	}
	bound := 1
	if *vlib.Tier == "thorough" {
		bound = 2
	}
	type cfg struct {
		role  string
		buf   int
		G, M  int
		extra string
		bound int
	}
	var cfgs []cfg
	for _, role := range []string{"acc", "ini"} {
		for _, buf := range []int{0, 1, 10} {
			cfgs = append(cfgs, cfg{role, buf, 2, 1, "none", bound})
		}
		cfgs = append(cfgs, cfg{role, 1, 2, 2, "none", bound}, cfg{role, 0, 3, 1, "none", bound},
			cfg{role, 1, 2, 1, "testreq", bound}, cfg{role, 0, 2, 1, "reject", bound}, cfg{role, 1, 2, 1, "hb", bound},
			cfg{role, 1, 3, 1, "slow-counter", bound}, cfg{role, 1, 2, 3, "stalled-writer", 0}, cfg{role, 1, 2, 1, "second-session", bound}, cfg{role, 10, 2, 3, "same-object", bound}, cfg{role, 1, 1, 3, "same-object", bound})
	}
	for i, c := range cfgs {
		if vlib.Expired() {
			R.Cap("deadline")
			break
		}
		scenarioBudget = 4 * vlib.Remaining() / time.Duration(len(cfgs)-i) // most scenarios finish far below their share
		sc := c05Scenario("c05", map[string]any{"role": c.role, "buf": c.buf, "G": c.G, "M": c.M, "extra": c.extra})
		sc.Bound = c.bound
		exploreSched(R, sc)
	}
	finishSched(R)
}
