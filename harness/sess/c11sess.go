package main

// C11, session part — "no message a peer can send makes the session's inbound path panic".
// The codec engine enumerates byte strings against the decoder; here the same kind of input goes
// through the handler's dispatch and the session's own raw-byte look-ups (MsgType extraction,
// sequence tracking, Reject construction) and typed parsers, in the states in which those code
// paths are live.  Enumerated: role x state {before logon, logged on, own TestRequest outstanding,
// own Logout outstanding} x MsgType {0,1,2,3,4,5,A,D} x every sequence of <= K body tokens from an
// alphabet of well-formed, empty-valued, value-less ("34"), tag-less ("=5") and duplicated fields
// of the tags the session reads (34, 35, 49, 56, 52, 7, 16, 36, 43, 45, 98, 108, 112, 123, 141,
// 371, 372, 373, 553, 554, 10, 9, 8), framed with a correct BodyLength and CheckSum, or with a wrong
// CheckSum.  Oracle: no task panics, the execution terminates (step cap = livelock), and the
// dispatch loop is still running afterwards unless the message had no usable MsgType.

import (
	"fmt"
	"strconv"
	"strings"
	"time"

	"vlib"
	"vsched"
)

type c11sCase struct {
	Scenario string   `json:"scenario"` // "c11sess"
	Role     string   `json:"role"`
	State    string   `json:"state"`              // pre | logged | probing | logout
	Type     string   `json:"type"`               // MsgType value; "" = no MsgType field at all
	TypeRaw  []byte   `json:"type_raw,omitempty"` // the value as bytes when it is not text (takes precedence)
	Tokens   []string `json:"tokens"`
	BadSum   bool     `json:"bad_sum,omitempty"`
}

var c11sTokens = []string{
	"34=2", "34", "34=", "=34", "34=x", "34=-1", "34=99999999999999999999",
	"35", "35=", "35=A",
	"49=CLI", "49", "56=", "52=20240101-00:00:00.000", "52=x",
	"7=1", "7", "7=", "16=0", "16", "16=x", "7=-9223372036854775808", "7=-4611686018427387904", "7=-1", "16=-1", "16=9223372036854775807", "7=9223372036854775807",
	"36=5", "36", "43=Y", "123=Y", "123",
	"98=0", "98", "108=1", "108", "108=", "141=Y", "553=u", "554",
	"112=T", "112", "112=",
	"45=1", "371", "372=A", "373=x",
	"10=000", "10", "9=5", "8=FIX.4.4", "=", "", "=5", "1=",
}

func c11sFrame(typ string, absent bool, toks []string, badSum bool) []byte {
	var body strings.Builder
	if !absent {
		body.WriteString("35=" + typ + "\x01")
	}
	for _, t := range toks {
		body.WriteString(t + "\x01")
	}
	b := body.String()
	head := "8=FIX.4.4\x019=" + strconv.Itoa(len(b)) + "\x01"
	sum := 0
	for i := 0; i < len(head); i++ {
		sum += int(head[i])
	}
	for i := 0; i < len(b); i++ {
		sum += int(b[i])
	}
	if badSum {
		sum++
	}
	return []byte(head + b + fmt.Sprintf("10=%03d\x01", sum%256))
}

func c11sRun(c c11sCase) (string, string) {
	hb := 30
	if c.State == "probing" {
		hb = 1
	}
	w := newWorld(wcfg{Role: c.Role, Buf: 10, HbMin: 1, HbMax: 60, HbInt: hb})
	switch c.State {
	case "logged", "probing", "logout":
		w.logonOK(hb)
		if !w.s.IsLogged() {
			return "setup:not-logged", ""
		}
	}
	switch c.State {
	case "probing":
		time.Sleep(2100 * time.Millisecond)
		vsched.Settle()
		if countType(w.outs, "1") == 0 {
			return "setup:no-testrequest", ""
		}
	case "logout":
		_ = w.s.Logout()
		vsched.Settle()
	}
	typ := c.Type
	if c.TypeRaw != nil {
		typ = string(c.TypeRaw)
	}
	m := c11sFrame(typ, typ == "", c.Tokens, c.BadSum)
	w.in(m)
	// a second, ordinary message must still get through the dispatch loop (unless the first one had no usable
	// MsgType: the handler treats that as fatal for the connection, by design)
	w.in(w.msg("0"))
	if c.State == "probing" {
		time.Sleep(100 * time.Millisecond)
	}
	vsched.Settle()
	return "", ""
}

func runC11sess(R *vlib.Out) {
	one := func(c c11sCase) {
		R.Eval()
		sig, d, steps := execBody(func() (string, string) { return c11sRun(c) })
		R.Transitions += int64(steps)
		key := fmt.Sprintf("sess/%s/%s/%q/%q/%v", c.Role, c.State, c.Type, c.Tokens, c.BadSum)
		R.State(key)
		R.ClassU(key)
		R.Outcome("sess: no panic")
		if strings.HasPrefix(sig, "panic-in-task:") {
			// one signature per panicking library function
			sig = "sess:" + sig + ":" + panicSite(d)
		} else if sig != "" {
			sig = "sess:" + sig
		}
		if sig != "" {
			R.Violate(sig, key+": "+d, c)
		}
	}
	if *vlib.ReplayPath != "" {
		var c c11sCase
		vlib.LoadReplay(&c)
		one(c)
		return
	}
	K := 2
	if *vlib.Tier == "thorough" {
		K = 3
	}
	R.Bounds["session_tokens_max"] = K
	R.Bounds["session_token_alphabet"] = len(c11sTokens)
	var seqs [][]string
	var gen func(cur []string)
	gen = func(cur []string) {
		seqs = append(seqs, append([]string{}, cur...))
		if len(cur) == K {
			return
		}
		for _, t := range c11sTokens {
			gen(append(cur, t))
		}
	}
	gen(nil)
	unit := 0
	// every one-byte MsgType value (the dispatch key is made from these bytes), and a few longer ones, with a
	// plain header; in every state
	var oddTypes []string
	for b := 0; b < 256; b++ {
		if b != 1 {
			oddTypes = append(oddTypes, string([]byte{byte(b)}))
		}
	}
	oddTypes = append(oddTypes, "AA", "\xe9\xe9", "0\x00", "A=", "=", " A", strings.Repeat("A", 300), "\xf0\x9f\x98\x80")
	R.Bounds["session_msgtype_values"] = len(oddTypes) + 9
	for _, role := range []string{"acc", "ini"} {
		for _, state := range []string{"pre", "logged", "probing", "logout"} {
			for _, typ := range oddTypes {
				for _, toks := range [][]string{{}, {"34=2"}} {
					unit++
					if !vlib.Mine(unit) {
						continue
					}
					if unit%64 == 0 && vlib.Expired() {
						R.Cap("deadline")
						return
					}
					one(c11sCase{Scenario: "c11sess", Role: role, State: state, Type: strconv.Quote(typ), TypeRaw: []byte(typ), Tokens: toks})
				}
			}
		}
	}
	for _, role := range []string{"acc", "ini"} {
		for _, state := range []string{"pre", "logged", "probing", "logout"} {
			for _, typ := range []string{"0", "1", "2", "3", "4", "5", "A", "D", ""} {
				for si, toks := range seqs {
					for _, bad := range []bool{false, true} {
						if bad && si%7 != 0 {
							continue // wrong-checksum variants for a seventh of the sequences
						}
						if (state == "probing" || state == "logout") && len(toks) == K && K > 1 && si%5 != 0 {
							continue // the two transient states take a fifth of the longest sequences
						}
						unit++
						if !vlib.Mine(unit) {
							continue
						}
						if unit%64 == 0 && vlib.Expired() {
							R.Cap("deadline")
							return
						}
						one(c11sCase{Scenario: "c11sess", Role: role, State: state, Type: typ, Tokens: toks, BadSum: bad})
					}
				}
			}
		}
	}
}

// panicSite extracts the innermost library function from a panic report.
func panicSite(detail string) string {
	for _, line := range strings.Split(detail, "\n") {
		line = strings.TrimSpace(line)
		if strings.HasPrefix(line, "github.com/b2broker/simplefix-go") && !strings.Contains(line, "/vharness") {
			f := strings.TrimPrefix(line, "github.com/b2broker/simplefix-go")
			f = strings.TrimPrefix(f, "/")
			if i := strings.Index(f, "("); i >= 0 && strings.HasSuffix(f, ")") {
				if j := strings.LastIndex(f, "("); j > 0 {
					f = f[:j]
				}
			}
			return f
		}
	}
	return "?"
}
