package main

// C16, connection part — the same statement with the real connection in the path: the damaged
// administrative message travels through Conn's reader on the scripted socket together with the
// valid traffic that follows it, so that message framing (which must not depend on the damaged
// BodyLength or CheckSum values) and the session's integrity check are exercised as they compose.
// Enumerated: role x state at arrival (before / after logon) x damaged message (type x damage) x
// the way the bytes reach the socket (one chunk with the follower, separate chunks, cut inside the
// damaged message).  Oracle, read from the bytes written to the socket with an independent
// tokenizer: exactly one Reject for the damaged message, with its RefSeqNum (or naming tag 34),
// and the valid follower processed normally (TestRequest answered when logged on; Logon accepted
// when not).

import (
	"context"
	"fmt"
	"strconv"
	"time"

	simplefixgo "github.com/b2broker/simplefix-go"
	"github.com/b2broker/simplefix-go/session"
	"github.com/b2broker/simplefix-go/session/messages"
	"github.com/b2broker/simplefix-go/storages/memory"
	"vlib"
	"vsched"
)

type c16cCase struct {
	Scenario string `json:"scenario"` // "c16conn"
	Role     string `json:"role"`
	Logged   bool   `json:"logged"`
	Type     string `json:"type"`
	Damage   string `json:"damage"`
	Feed     string `json:"feed"` // "one" | "two" | "cut"
}

var c16cDamages = []string{"checksum", "length+1", "length+5", "length+60", "length-1", "length-3", "seq-not-numeric+checksum", "seq-missing+length+5"}

func c16cDamaged(m []byte, damage string) (out []byte, seqKnown bool) {
	seqKnown = true
	switch damage {
	case "checksum":
		return badChecksum(m), true
	case "length+1":
		return badLengthBy(m, 1), true
	case "length+5":
		return badLengthBy(m, 5), true
	case "length+60":
		return badLengthBy(m, 60), true
	case "length-1":
		return badLengthBy(m, -1), true
	case "length-3":
		return badLengthBy(m, -3), true
	case "seq-not-numeric+checksum":
		return badChecksum(withField(m, "34", "x7")), false
	case "seq-missing+length+5":
		return badLengthBy(withField(m, "34", "\x00del"), 5), false
	}
	panic("unknown damage " + damage)
}

// lenientUnmarshaller: an application's own decoder that skips the integrity checks (what SetUnmarshaller is for).
type lenientUnmarshaller struct{}

func (lenientUnmarshaller) Unmarshal(msg messages.Builder, d []byte) error { return nil }

// c16SharedOpts: two sessions built from one options object, as the sessions of one acceptor are.  One of them is
// given a decoder of its own; the other one still refuses damaged messages.
func c16SharedOpts(c c16cCase) (string, string) {
	o := opts()
	w1 := newWorld(wcfg{Role: c.Role, Buf: 10, HbMin: 1, HbMax: 60, HbInt: 30, Opts: o})
	w2 := newWorld(wcfg{Role: c.Role, Buf: 10, HbMin: 1, HbMax: 60, HbInt: 30, Opts: o})
	w1.s.SetUnmarshaller(lenientUnmarshaller{})
	w1.logonOK(30)
	w2.logonOK(30)
	if !w2.s.IsLogged() {
		return "shared-options:other-session-cannot-log-on", "a session that was not given an unmarshaller of its own no longer decodes its Logon"
	}
	w3 := newWorld(wcfg{Role: c.Role, Buf: 10, HbMin: 1, HbMax: 60, HbInt: 30, Opts: o}) // created after the call
	w3.logonOK(30)
	for i, w := range []*world{w2, w3} {
		w.take()
		w.in(badChecksum(w.msg("0")))
		outs := w.take()
		if countType(outs, "3") != 1 || w.runDone {
			return "shared-options:damaged-message-not-rejected", fmt.Sprintf("session %d of 3 (another one was given its own unmarshaller): outs=[%s]", i+2, outsStr(outs))
		}
	}
	return "", ""
}

func c16cRun(c c16cCase) (sig, detail string) {
	if c.Damage == "shared-options" {
		return c16SharedOpts(c)
	}
	cn := newConn(0)
	var s *session.Session
	st := memory.NewStorage()
	peer, self := "SRV", "CLI"
	if c.Role == "ini" {
		h := simplefixgo.NewInitiatorHandler(context.Background(), "35", 10)
		cl := simplefixgo.NewInitiator(cn, h, 10, 5*time.Second)
		var err error
		s, err = session.NewInitiatorSession(h, opts(), &session.LogonSettings{
			TargetCompID: peer, SenderCompID: self, HeartBtInt: 30, EncryptMethod: "0", CloseTimeout: time.Second,
		}, st, st)
		if err != nil {
			panic(err)
		}
		go func() { _ = cl.Serve() }()
		_ = s.Run()
	} else {
		peer, self = "CLI", "SRV"
		l := &slistener{}
		acc := simplefixgo.NewAcceptor(l, simplefixgo.NewAcceptorHandlerFactory("35", 10), 5*time.Second, func(ah simplefixgo.AcceptorHandler) {
			var err error
			s, err = session.NewAcceptorSession(opts(), ah, &session.LogonSettings{
				LogonTimeout: 30 * time.Second, HeartBtLimits: &session.IntLimits{Min: 1, Max: 60}, CloseTimeout: time.Second,
			}, func(*session.LogonSettings) error { return nil }, st, st)
			if err != nil {
				panic(err)
			}
			_ = s.Run()
		})
		go func() { _ = acc.ListenAndServe() }()
		l.q = append(l.q, cn)
	}
	vsched.Settle()
	seq := 1
	if c.Logged {
		cn.feed(rawFrom(peer, self, "A", seq, "98=0", "108=30"))
		seq++
		vsched.Settle()
		if !s.IsLogged() {
			return "conn:setup:not-logged", show(cn.stream())
		}
	}
	nBefore := len(splitWritten(cn))
	var fields []string
	switch c.Type {
	case "1":
		fields = []string{"112=D1"}
	case "2":
		fields = []string{"7=1", "16=0"}
	case "A":
		fields = []string{"98=0", "108=30"}
	}
	bad, seqKnown := c16cDamaged(rawFrom(peer, self, c.Type, seq, fields...), c.Damage)
	badSeq := seq
	seq++
	var follower []byte
	if c.Logged {
		follower = rawFrom(peer, self, "1", seq, "112=FOLLOW")
	} else {
		follower = rawFrom(peer, self, "A", seq, "98=0", "108=30")
	}
	switch c.Feed {
	case "one":
		cn.feed(append(append([]byte{}, bad...), follower...))
	case "two":
		cn.feed(bad)
		vsched.Settle()
		cn.feed(follower)
	case "cut":
		k := len(bad) / 2
		cn.feed(bad[:k])
		vsched.Settle()
		cn.feed(append(append([]byte{}, bad[k:]...), follower...))
	}
	vsched.Settle()
	time.Sleep(2 * time.Second) // (no timer of the session is due: the interval is 30 s)
	vsched.Settle()
	outs := splitWritten(cn)[nBefore:]
	det := func(f string, a ...any) string {
		var o []string
		for _, m := range outs {
			o = append(o, show(m))
		}
		return fmt.Sprintf(f, a...) + fmt.Sprintf(" | damaged=%s follower=%s written=%v", show(bad), show(follower), o)
	}
	if len(outs) == 0 {
		return "conn:no-reject", det("nothing was written")
	}
	if mtype(outs[0]) != "3" {
		return "conn:no-reject", det("first message written is %s", typeName(mtype(outs[0])))
	}
	ref, _ := get(outs[0], "45")
	rtag, _ := get(outs[0], "371")
	if seqKnown && ref != strconv.Itoa(badSeq) {
		return "conn:reject-wrong-refseqnum", det("RefSeqNum=%s want %d", ref, badSeq)
	}
	if !seqKnown && rtag != "34" {
		return "conn:reject-not-naming-seqnum-tag", det("RefTagID=%s", rtag)
	}
	if len(outs) < 2 {
		return "conn:follower-not-processed", det("the valid message after the damaged one drew no reaction")
	}
	if len(outs) > 2 {
		if !(len(outs) == 3 && !c.Logged && mtype(outs[2]) == "2") { // a logon with a gap also asks for a resend
			return "conn:extra-output", det("%d messages written", len(outs))
		}
	}
	if c.Logged {
		id, _ := get(outs[1], "112")
		if mtype(outs[1]) != "0" || id != "FOLLOW" {
			return "conn:follower-not-processed", det("expected Heartbeat 112=FOLLOW")
		}
		if !s.IsLogged() {
			return "conn:logged-state-changed", det("")
		}
	} else {
		if mtype(outs[1]) != "A" || !s.IsLogged() {
			return "conn:follower-not-processed", det("expected the Logon to be accepted (IsLogged=%v)", s.IsLogged())
		}
	}
	if cn.closed {
		return "conn:connection-closed", det("")
	}
	return "", ""
}

func splitWritten(cn *sconn) [][]byte {
	msgs, _ := splitStream(cn.stream())
	return msgs
}

func runC16conn(R *vlib.Out) {
	one := func(c c16cCase) {
		R.Eval()
		sig, d, steps := execBody(func() (string, string) { return c16cRun(c) })
		R.Transitions += int64(steps)
		key := fmt.Sprintf("conn/%s/%v/%s/%s/%s", c.Role, c.Logged, c.Type, c.Damage, c.Feed)
		R.State(key)
		R.ClassU(key)
		R.Outcome("conn: reject + follower processed")
		if sig != "" {
			R.Violate(sig, key+": "+d, c)
		}
	}
	if *vlib.ReplayPath != "" {
		var c c16cCase
		vlib.LoadReplay(&c)
		one(c)
		return
	}
	unit := 0
	for _, role := range []string{"acc", "ini"} {
		unit++
		if vlib.Mine(unit) {
			one(c16cCase{Scenario: "c16conn", Role: role, Logged: true, Type: "0", Damage: "shared-options", Feed: "one"})
		}
	}
	for _, role := range []string{"acc", "ini"} {
		for _, logged := range []bool{true, false} {
			for _, typ := range []string{"0", "1", "2", "5", "A"} {
				for _, dmg := range c16cDamages {
					for _, feed := range []string{"one", "two", "cut"} {
						if role == "ini" && !logged {
							continue // the initiator's pre-logon state is covered at handler level
						}
						unit++
						if !vlib.Mine(unit) {
							continue
						}
						if vlib.Expired() {
							R.Cap("deadline")
							return
						}
						one(c16cCase{Scenario: "c16conn", Role: role, Logged: logged, Type: typ, Damage: dmg, Feed: feed})
					}
				}
			}
		}
	}
}
