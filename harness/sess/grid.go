package main

// Timed-grid explorer for C08 (never silent longer than the heartbeat interval) and C09 (silent
// peer probed then disconnected, live peer never).  Strict virtual time: computation takes zero
// time, so the timing oracles need no slack.  Actions (application send, inbound Heartbeat,
// inbound application message) are placed on a grid of virtual instants built from both timers'
// polling periods (k·τ/2, k·τ ± 1 ms, the deadlines ± 1 ms and exactly); every placement of up to
// K actions is executed on the real handler + session.

import (
	"fmt"
	"github.com/b2broker/simplefix-go/storages/memory"
	"sort"
	"time"
	stdtime "time"

	fixgen "github.com/b2broker/simplefix-go/tests/fix44"
	"vlib"
	"vsched"
)

type gact struct {
	AtMs int64 `json:"at_ms"`
	Kind int   `json:"kind"` // 1 application send, 2 inbound Heartbeat, 3 inbound application message, 4 inbound ResendRequest(1,0), 5 inbound retransmission (PossDupFlag=Y, an old number), 6 inbound TestRequest, 7 inbound Heartbeat without MsgSeqNum, 8 inbound application message with a non-numeric MsgSeqNum
}

type gridCase struct {
	Role    string `json:"role"`
	N       int    `json:"n"`
	Acts    []gact `json:"acts"`
	Horizon int64  `json:"horizon_ms"`
	Pattern string `json:"pattern,omitempty"`
	Loc     string `json:"location,omitempty"` // Opts.Location of the session (a zone east or west of UTC)
	// PrevN > 0: the session was logged on before with heartbeat interval PrevN, the peer logged out
	// and logs on again with N on the same connection; action times and the horizon count from the
	// second logon
	PrevN int `json:"prev_n,omitempty"`
	// After: "own-logout" = the session sends a Logout 100 ms after the logon and the peer never answers
	// it; "peer-logout" = the peer logs out at 100 ms (answered) and stays connected.  The peer's
	// silence must still end in the disconnect event (C09 "... then disconnected"); whether a peer
	// that is not logged on is probed first is not judged.
	After string `json:"after,omitempty"`
	// FailSave = k > 0: the message store refuses the k-th message saved after the logon, once (a
	// transient fault of the environment).  That message is not transmitted (C19); the session must go
	// on heartbeating afterwards.
	FailSave int `json:"fail_save,omitempty"`
}

type gridObs struct {
	outs      []outMsg
	inAt      []time.Duration
	discAt    time.Duration // session context cancelled (-1 = never)
	stoppedAt time.Duration // handler loop returned (-1 = never)
	discEv    int
	stopped   int
	logonAt   time.Duration
	end       time.Duration
}

func gridRun(c gridCase) (o gridObs, sig, detail string) {
	cfg := wcfg{Role: c.Role, Buf: 10, HbMin: 1, HbMax: 100, HbInt: c.N, Location: c.Loc}
	var fs *failingStore
	if c.FailSave > 0 {
		st := memory.NewStorage()
		var slog []string
		fs = &failingStore{Storage: st, log: &slog, failAt: c.FailSave, saved: map[int][]byte{}}
		cfg.Store, cfg.MS = st, fs
	}
	w := newWorld(cfg)
	o.discAt, o.stoppedAt = -1, -1
	if c.PrevN > 0 {
		w.logonOK(c.PrevN)
		if !w.s.IsLogged() {
			return o, "setup:not-logged", ""
		}
		time.Sleep(100 * time.Millisecond)
		w.in(w.msg("5"))
		if w.s.IsLogged() {
			return o, "setup:still-logged-after-logout", ""
		}
		time.Sleep(100 * time.Millisecond)
	}
	base := vsched.NowOffset()
	o.logonAt = base
	w.logonOK(c.N)
	if !w.s.IsLogged() {
		return o, "setup:not-logged", ""
	}
	if fs != nil {
		fs.armed = true
	}
	switch c.After {
	case "own-logout":
		time.Sleep(100 * time.Millisecond)
		_ = w.s.Logout()
		vsched.Settle()
	case "peer-logout":
		time.Sleep(100 * time.Millisecond)
		o.inAt = append(o.inAt, vsched.NowOffset())
		w.in(w.msg("5"))
	}
	go func() {
		// handler loop end is observed by polling runDone at every instant the harness is awake;
		// record the instant precisely with a watcher on the handler context
		<-w.h.Context().Done()
		o.stoppedAt = vsched.NowOffset()
	}()
	for _, a := range c.Acts {
		vsched.SleepUntil(base + time.Duration(a.AtMs)*time.Millisecond)
		if w.runDone {
			break
		}
		switch a.Kind {
		case 1:
			_ = w.s.Send(fixgen.NewMarketDataRequest().SetMDReqID("app"))
		case 2:
			o.inAt = append(o.inAt, vsched.NowOffset())
			w.h.ServeIncoming(w.msg("0"))
		case 3:
			o.inAt = append(o.inAt, vsched.NowOffset())
			w.h.ServeIncoming(w.msg("D", "11=x"))
		case 5:
			// a message the peer sends again (PossDupFlag=Y, the number it had the first time): inbound traffic like any other
			o.inAt = append(o.inAt, vsched.NowOffset())
			w.h.ServeIncoming(rawFrom(w.peer, w.self, "D", 1, "43=Y", "11=again"))
		case 6:
			// a TestRequest of the peer: inbound traffic, and the Heartbeat that answers it is outbound traffic like any other
			o.inAt = append(o.inAt, vsched.NowOffset())
			w.h.ServeIncoming(w.msg("1", "112=probe"))
		case 7:
			// a message whose MsgSeqNum is missing: rejected (C16), but it arrived, and "any inbound message of any type" is a sign of life
			o.inAt = append(o.inAt, vsched.NowOffset())
			w.h.ServeIncoming(withField(rawFrom(w.peer, w.self, "0", w.nextIn), "34", "\x00del"))
		case 8:
			// the same with a MsgSeqNum that is not a number
			o.inAt = append(o.inAt, vsched.NowOffset())
			w.h.ServeIncoming(withField(rawFrom(w.peer, w.self, "D", w.nextIn, "11=x"), "34", "abc"))
		case 4:
			// the retransmissions it draws are outbound traffic like any other
			o.inAt = append(o.inAt, vsched.NowOffset())
			w.h.ServeIncoming(w.msg("2", "7=1", "16=0"))
		}
		vsched.Settle()
	}
	vsched.SleepUntil(base + time.Duration(c.Horizon)*time.Millisecond)
	vsched.Settle()
	for _, m := range w.outs {
		if m.At >= base { // the timeline starts with the answer to the (last) logon
			o.outs = append(o.outs, m)
		}
	}
	if w.ctxDone {
		o.discAt = w.ctxDoneAt
	}
	o.discEv, o.stopped = w.discEv, w.stopped
	o.end = vsched.NowOffset()
	return o, "", ""
}

func tol(N int) int {
	if N/20 > 1 {
		return N / 20
	}
	return 1
}

// c08Oracle: outbound timeline from the logon message to the disconnect (or the horizon).
func c08Oracle(c gridCase, o gridObs) (string, string) {
	Nd := time.Duration(c.N) * time.Second
	tau := Nd / 10
	end := o.end
	if o.discAt >= 0 {
		end = o.discAt
	}
	var tl []outMsg
	for _, m := range o.outs {
		if m.At <= end {
			tl = append(tl, m)
		}
	}
	if len(tl) == 0 {
		return "no-logon-message", ""
	}
	maxSeq := seqOf(tl[0].Msg)
	for i := 1; i < len(tl); i++ {
		retrans := seqOf(tl[i].Msg) <= maxSeq // a retransmission (old number) answering a ResendRequest
		if !retrans {
			maxSeq = seqOf(tl[i].Msg)
		}
		gap := tl[i].At - tl[i-1].At
		if gap > Nd+tau {
			return "silent-too-long", fmt.Sprintf("gap %v > %v between %s@%v and %s@%v", gap, Nd+tau, typeName(mtype(tl[i-1].Msg)), tl[i-1].At, typeName(mtype(tl[i].Msg)), tl[i].At)
		}
		if mtype(tl[i].Msg) == "0" && !retrans {
			if _, has := get(tl[i].Msg, "112"); !has && gap < Nd {
				return "heartbeat-too-early", fmt.Sprintf("unsolicited Heartbeat at %v only %v after %s@%v", tl[i].At, gap, typeName(mtype(tl[i-1].Msg)), tl[i-1].At)
			}
		}
	}
	if o.discAt < 0 {
		if gap := end - tl[len(tl)-1].At; gap > Nd+tau {
			return "silent-too-long", fmt.Sprintf("nothing sent for %v (> %v) after %s@%v until the horizon %v", gap, Nd+tau, typeName(mtype(tl[len(tl)-1].Msg)), tl[len(tl)-1].At, end)
		}
	}
	return "", ""
}

// c08FaultOracle: one outbound message was refused by the store.  At most one gap may exceed N + tau,
// and it is at most 2N + tau (the refused message's slot); everything after it obeys the plain rule.
func c08FaultOracle(c gridCase, o gridObs) (string, string) {
	Nd := time.Duration(c.N) * time.Second
	tau := Nd / 10
	end := o.end
	if o.discAt >= 0 {
		end = o.discAt
	}
	var tl []outMsg
	for _, m := range o.outs {
		if m.At <= end {
			tl = append(tl, m)
		}
	}
	if len(tl) == 0 {
		return "no-logon-message", ""
	}
	long := 0
	check := func(gap time.Duration, what string) (string, string) {
		if gap > 2*Nd+tau {
			return "silent-after-a-refused-send", fmt.Sprintf("%s: gap %v > %v (store refused save #%d once)", what, gap, 2*Nd+tau, c.FailSave)
		}
		if gap > Nd+tau {
			long++
			if long > 1 {
				return "silent-after-a-refused-send", fmt.Sprintf("%s: a second gap of %v (store refused save #%d once)", what, gap, c.FailSave)
			}
		}
		return "", ""
	}
	for i := 1; i < len(tl); i++ {
		if s, d := check(tl[i].At-tl[i-1].At, fmt.Sprintf("between %s@%v and %s@%v", typeName(mtype(tl[i-1].Msg)), tl[i-1].At, typeName(mtype(tl[i].Msg)), tl[i].At)); s != "" {
			return s, d
		}
	}
	if o.discAt < 0 {
		if s, d := check(end-tl[len(tl)-1].At, fmt.Sprintf("after %s@%v until the horizon %v", typeName(mtype(tl[len(tl)-1].Msg)), tl[len(tl)-1].At, end)); s != "" {
			return s, d
		}
	}
	return "", ""
}

// c09Oracle: window rule of the statement, evaluated with arrivals ordered before (arrFirst) or
// after (!arrFirst) session actions that carry the same virtual instant.
func c09Check(c gridCase, o gridObs, arrFirst bool) (string, string) {
	T := time.Duration(c.N+tol(c.N)) * time.Second
	win := T / 10
	type ev struct {
		at   time.Duration
		kind int // 0 arrival, 1 TestRequest sent, 2 disconnect
	}
	var evs []ev
	for _, a := range o.inAt {
		evs = append(evs, ev{a, 0})
	}
	for _, m := range o.outs {
		if mtype(m.Msg) == "1" {
			evs = append(evs, ev{m.At, 1})
		}
	}
	if o.discAt >= 0 {
		evs = append(evs, ev{o.discAt, 2})
	}
	sort.SliceStable(evs, func(i, j int) bool {
		if evs[i].at != evs[j].at {
			return evs[i].at < evs[j].at
		}
		ai, aj := evs[i].kind == 0, evs[j].kind == 0
		if ai != aj {
			return ai == arrFirst
		}
		return evs[i].kind < evs[j].kind
	})
	L := o.logonAt
	waiting := false
	disc := false
	for _, e := range evs {
		if disc {
			if e.kind != 0 {
				return "activity-after-disconnect", fmt.Sprintf("event kind %d at %v", e.kind, e.at)
			}
			continue
		}
		// nothing may be overdue when the next event happens
		if e.at >= L+T+win && !(e.at == L+T+win && false) {
			what := "testrequest"
			if waiting {
				what = "disconnect"
			}
			return "missed-" + what, fmt.Sprintf("period started %v: %s was due in [%v,%v) but next event is at %v", L, what, L+T, L+T+win, e.at)
		}
		switch e.kind {
		case 0:
			L, waiting = e.at, false
		case 1:
			if e.at < L+T {
				return "testrequest-too-early", fmt.Sprintf("TestRequest at %v, period started %v, T=%v", e.at, L, T)
			}
			if waiting {
				return "second-testrequest-instead-of-disconnect", fmt.Sprintf("at %v", e.at)
			}
			L, waiting = e.at, true
		case 2:
			if !waiting {
				return "disconnect-without-probe", fmt.Sprintf("disconnect at %v, period started %v", e.at, L)
			}
			if e.at < L+T {
				return "disconnect-too-early", fmt.Sprintf("disconnect at %v, TestRequest at %v, T=%v", e.at, L, T)
			}
			disc = true
		}
	}
	if !disc && o.end >= L+T+win {
		what := "testrequest"
		if waiting {
			what = "disconnect"
		}
		return "missed-" + what, fmt.Sprintf("period started %v: %s was due in [%v,%v), horizon %v", L, what, L+T, L+T+win, o.end)
	}
	if disc {
		// the disconnect event is raised once and the handler is stopped at that very instant
		if o.discEv != 1 {
			return "disconnect-event-count", fmt.Sprint(o.discEv)
		}
		if o.stoppedAt != o.discAt {
			return "handler-not-stopped-on-disconnect", fmt.Sprintf("disconnect at %v, handler context cancelled at %v", o.discAt, o.stoppedAt)
		}
	} else if o.discEv != 0 || o.stoppedAt >= 0 {
		return "stopped-without-disconnect", fmt.Sprintf("discEv=%d stoppedAt=%v", o.discEv, o.stoppedAt)
	}
	return "", ""
}

// c09AfterLogout: the peer of a session that is no longer logged on falls silent.  At the latest two
// silent periods after the last arrival (each expiry is noticed within one polling step) the
// disconnect event is raised - not before one full period of silence has passed - exactly once, and
// the handler is stopped at that instant.  (Whether such a peer is probed first, and whether the
// session gives it one period or two, the statement leaves open; it does not leave open that the
// connection is eventually given up.)
func c09AfterLogout(c gridCase, o gridObs) (string, string) {
	T := time.Duration(c.N+tol(c.N)) * time.Second
	win := T / 10
	last := o.logonAt
	for _, a := range o.inAt {
		if a > last {
			last = a
		}
	}
	lo, hi := last+T, last+2*T+2*win
	if o.discAt < 0 {
		if o.end > hi {
			return "after-logout:silent-peer-never-disconnected", fmt.Sprintf("%s: last arrival %v, disconnect was due in [%v,%v], horizon %v", c.After, last, lo, hi, o.end)
		}
		return "", ""
	}
	if o.discAt < lo {
		return "after-logout:disconnect-too-early", fmt.Sprintf("%s: last arrival %v, disconnect at %v, not due before %v", c.After, last, o.discAt, lo)
	}
	if o.discAt > hi {
		return "after-logout:disconnect-too-late", fmt.Sprintf("%s: last arrival %v, disconnect at %v, due by %v", c.After, last, o.discAt, hi)
	}
	if o.discEv != 1 {
		return "disconnect-event-count", fmt.Sprint(o.discEv)
	}
	if o.stoppedAt != o.discAt {
		return "handler-not-stopped-on-disconnect", fmt.Sprintf("disconnect at %v, handler context cancelled at %v", o.discAt, o.stoppedAt)
	}
	return "", ""
}

func c09Oracle(c gridCase, o gridObs) (string, string) {
	if c.After != "" {
		return c09AfterLogout(c, o)
	}
	s1, d1 := c09Check(c, o, true)
	if s1 == "" {
		return "", ""
	}
	s2, _ := c09Check(c, o, false)
	if s2 == "" {
		return "", ""
	}
	return s1, d1
}

func gridPoints(N int, coarse bool) []int64 {
	Nms := int64(N) * 1000
	tau := Nms / 10
	Tms := int64(N+tol(N)) * 1000
	tin := Tms / 10
	horizon := 3 * Tms
	set := map[int64]bool{}
	if coarse {
		for t := tau; t < horizon; t += tau {
			set[t] = true
		}
	} else {
		for t := tau / 2; t < horizon; t += tau / 2 {
			set[t] = true
		}
		for t := tau; t < horizon; t += tau {
			set[t-1], set[t+1] = true, true
		}
		for t := tin; t < horizon; t += tin {
			set[t-1], set[t+1], set[t] = true, true, true
		}
	}
	for _, t := range []int64{Tms - 1, Tms, Tms + 1, 2*Tms - 1, 2 * Tms, 2*Tms + 1, Nms - 1, Nms, Nms + 1} {
		set[t] = true
	}
	var g []int64
	for t := range set {
		if t > 0 && t < horizon {
			g = append(g, t)
		}
	}
	sort.Slice(g, func(i, j int) bool { return g[i] < g[j] })
	return g
}

func runGrid(R *vlib.Out, prop string) {
	oracle := c08Oracle
	if prop == "C09" {
		oracle = c09Oracle
	}
	one := func(c gridCase) {
		R.Eval()
		var o gridObs
		sig, d, steps := execBody(func() (string, string) {
			var s, dd string
			o, s, dd = gridRun(c)
			return s, dd
		})
		R.Transitions += int64(steps)
		if sig == "" {
			if c.FailSave > 0 {
				sig, d = c08FaultOracle(c, o)
			} else {
				sig, d = oracle(c, o)
			}
		}
		ntr, nhb := 0, 0
		for _, m := range o.outs {
			switch mtype(m.Msg) {
			case "1":
				ntr++
			case "0":
				nhb++
			}
		}
		out := fmt.Sprintf("hb=%d tr=%d disc=%v", nhb, ntr, o.discAt >= 0)
		R.Outcome(out)
		R.State(fmt.Sprintf("%s/%d/%v/%s/%d/%s/%d", c.Role, c.N, c.Acts, c.Pattern, c.PrevN, c.After, c.FailSave))
		R.ClassU(fmt.Sprintf("%s/%d/%s/%s/%v/%d/%s/%d", c.Role, c.N, out, c.Pattern, kinds(c.Acts), c.PrevN, c.After, c.FailSave))
		R.Sample(5, c)
		if sig != "" {
			R.Violate(sig, fmt.Sprintf("%+v: %s", c, d), c)
		}
	}
	if *vlib.ReplayPath != "" {
		var probe struct {
			Scenario string `json:"scenario"`
		}
		vlib.LoadReplay(&probe)
		if probe.Scenario == "c09s" {
			replaySched(R, c09SchedScenario)
			return
		}
		var c gridCase
		vlib.LoadReplay(&c)
		one(c)
		return
	}
	if prop == "C09" {
		// the schedule part first: it is small, and a deadline reached in the grid must not skip it
		saved := scenarioBudget
		runC09Sched(R)
		scenarioBudget = saved
	}
	Ns := map[string]map[string][]int{
		"C08": {"quick": {1, 10, 60}, "thorough": {1, 2, 10, 30, 60}},
		"C09": {"quick": {1, 20, 40}, "thorough": {1, 5, 20, 39, 40, 60}},
	}[prop][*vlib.Tier]
	maxActs := 2
	kindsOf := []int{1, 2, 3, 6}
	if prop == "C08" {
		kindsOf = []int{1, 2, 3, 4, 6}
	}
	nKinds := len(kindsOf)
	R.Bounds["N"] = fmt.Sprint(Ns)
	R.Bounds["max_actions_fine_grid"] = maxActs
	unit := 0
	try := func(c gridCase) bool {
		unit++
		if !vlib.Mine(unit) {
			return true
		}
		if unit%64 == 0 && vlib.Expired() {
			R.Cap("deadline")
			return false
		}
		one(c)
		return true
	}
	for _, role := range []string{"acc", "ini"} {
		for _, N := range Ns {
			Tms := int64(N+tol(N)) * 1000
			horizon := 3*Tms + Tms/2
			grid := gridPoints(N, false)
			R.Bounds[fmt.Sprintf("grid_points_N%d", N)] = len(grid)
			var rec func(start int, acts []gact, max int, g []int64) bool
			rec = func(start int, acts []gact, max int, g []int64) bool {
				if !try(gridCase{Role: role, N: N, Acts: acts, Horizon: horizon}) {
					return false
				}
				if len(acts) == max {
					return true
				}
				for gi := start; gi < len(g); gi++ {
					for k := 1; k <= nKinds; k++ {
						if !rec(gi+1, append(append([]gact{}, acts...), gact{g[gi], kindsOf[k-1]}), max, g) {
							return false
						}
					}
				}
				return true
			}
			if N == Ns[0] {
				// a session that writes its timestamps in a zone east or west of UTC keeps the same rhythm: idle,
				// and with one application send or one inbound message part-way through a period
				for _, loc := range []string{"Asia/Tokyo", "America/New_York"} {
					if _, err := stdtime.LoadLocation(loc); err != nil {
						R.Note("time zone database not available: location cases skipped")
						break
					}
					for _, acts := range [][]gact{nil, {{Tms / 3, 1}}, {{Tms / 2, 2}}, {{Tms / 3, 1}, {Tms, 1}}} {
						if !try(gridCase{Role: role, N: N, Acts: acts, Horizon: horizon, Pattern: "location", Loc: loc}) {
							return
						}
					}
				}
			}
			if prop == "C09" {
				// retransmissions from the peer (PossDupFlag=Y) are inbound traffic too: one anywhere on the
				// grid, two on the coarse grid
				for _, t := range grid {
					if !try(gridCase{Role: role, N: N, Acts: []gact{{t, 5}}, Horizon: horizon, Pattern: "possdup"}) {
						return
					}
				}
				cg := gridPoints(N, true)
				for i, t1 := range cg {
					for _, t2 := range cg[i+1:] {
						if !try(gridCase{Role: role, N: N, Acts: []gact{{t1, 5}, {t2, 5}}, Horizon: horizon, Pattern: "possdup"}) {
							return
						}
					}
				}
			}
			if prop == "C09" {
				// messages whose sequence number cannot be read (missing, not a number) are answered with a Reject
				// and are inbound traffic all the same: one anywhere on the grid, two on the coarse grid, and one
				// of them after an ordinary message
				for _, k := range []int{7, 8} {
					for _, t := range grid {
						if !try(gridCase{Role: role, N: N, Acts: []gact{{t, k}}, Horizon: horizon, Pattern: "unreadable-seq"}) {
							return
						}
					}
					cg := gridPoints(N, true)
					for i, t1 := range cg {
						for _, t2 := range cg[i+1:] {
							if !try(gridCase{Role: role, N: N, Acts: []gact{{t1, k}, {t2, k}}, Horizon: horizon, Pattern: "unreadable-seq"}) {
								return
							}
							if !try(gridCase{Role: role, N: N, Acts: []gact{{t1, 2}, {t2, k}}, Horizon: horizon, Pattern: "unreadable-seq"}) {
								return
							}
						}
					}
				}
			}
			if !rec(0, nil, maxActs, grid) {
				return
			}
			if *vlib.Tier == "thorough" {
				// three actions on the coarse grid (multiples of the polling period and the deadlines)
				cg := gridPoints(N, true)
				if !rec(0, nil, 3, cg) {
					return
				}
			}
			// bursts: three actions at one instant
			for _, t := range grid {
				if t%(int64(N)*100) != 0 {
					continue
				}
				for k := 1; k <= 3; k++ {
					if !try(gridCase{Role: role, N: N, Acts: []gact{{t, k}, {t, k}, {t, (k % 3) + 1}}, Horizon: horizon, Pattern: "burst"}) {
						return
					}
				}
			}
			// a second logon on the same connection (after a Logout) with the same, a smaller and a larger
			// interval than the first: silence, every single action on the grid, steady traffic
			prevs := []int{N, 1, 60} // the previous interval: the same, a smaller and a larger one
			if N == 1 {
				prevs = []int{1, 7, 60}
			} else if N == 60 {
				prevs = []int{60, 1, 7}
			}
			for _, prev := range prevs {
				if !try(gridCase{Role: role, N: N, PrevN: prev, Horizon: horizon, Pattern: "relogon"}) {
					return
				}
				rg := grid
				if *vlib.Tier != "thorough" {
					rg = gridPoints(N, true) // multiples of the polling period and the deadlines +-1 ms
				}
				for _, t := range rg {
					for _, k := range kindsOf {
						if !try(gridCase{Role: role, N: N, PrevN: prev, Acts: []gact{{t, k}}, Horizon: horizon, Pattern: "relogon"}) {
							return
						}
					}
				}
				Nms := int64(N) * 1000
				for _, kind := range []int{1, 2} {
					var acts []gact
					for t := Nms - Nms/10; t <= 4*Nms; t += Nms - Nms/10 {
						acts = append(acts, gact{t, kind})
					}
					if !try(gridCase{Role: role, N: N, PrevN: prev, Acts: acts, Horizon: 4*Nms + horizon, Pattern: "relogon-steady"}) {
						return
					}
				}
			}
			if prop == "C08" {
				// a transient fault of the message store: the k-th message saved after the logon is refused once;
				// the peer keeps sending Heartbeats so that the session stays up; alone and with one application send
				Nms := int64(N) * 1000
				var beats []gact
				for t := Nms / 2; t < 6*Nms; t += Nms / 2 {
					beats = append(beats, gact{t, 2})
				}
				for k := 1; k <= 4; k++ {
					if !try(gridCase{Role: role, N: N, Acts: beats, FailSave: k, Horizon: 6 * Nms, Pattern: "save-refused"}) {
						return
					}
					for _, t := range gridPoints(N, true) {
						if t >= 5*Nms {
							continue
						}
						acts := append(append([]gact{}, beats...), gact{t, 1})
						sort.SliceStable(acts, func(i, j int) bool { return acts[i].AtMs < acts[j].AtMs })
						if !try(gridCase{Role: role, N: N, Acts: acts, FailSave: k, Horizon: 6 * Nms, Pattern: "save-refused"}) {
							return
						}
					}
				}
			}
			if prop == "C09" {
				// the peer falls silent after a logout (pending or completed): silence, and one arrival anywhere
				for _, after := range []string{"own-logout", "peer-logout"} {
					if !try(gridCase{Role: role, N: N, After: after, Horizon: horizon, Pattern: "after-logout"}) {
						return
					}
					for _, t := range gridPoints(N, true) {
						for _, k := range []int{2, 3} {
							if t <= 100 {
								continue
							}
							if !try(gridCase{Role: role, N: N, After: after, Acts: []gact{{t, k}}, Horizon: horizon + t, Pattern: "after-logout"}) {
								return
							}
						}
					}
				}
			}
			// steady traffic for 6 periods: inbound (kind 2) and outbound (kind 1) with period N, N-tau, N+T/10
			Nms := int64(N) * 1000
			for _, per := range []int64{Nms, Nms - Nms/10, Nms + Tms/10, Nms / 2} {
				for _, kind := range []int{1, 2, 3, 5} {
					if kind == 5 && prop != "C09" {
						continue
					}
					var acts []gact
					for t := per; t <= 6*Nms; t += per {
						acts = append(acts, gact{t, kind})
					}
					if !try(gridCase{Role: role, N: N, Acts: acts, Horizon: 6*Nms + horizon, Pattern: fmt.Sprintf("steady/%dms", per)}) {
						return
					}
				}
			}
		}
	}
}

func kinds(a []gact) string {
	s := ""
	for _, x := range a {
		s += fmt.Sprint(x.Kind)
	}
	return s
}

// ---- C09, schedule part: the peer answers the session's TestRequest the instant it is on the wire ----
// (the answer is dispatched concurrently with the timer task that sent the probe; all interleavings
// within the preemption bound; the window-rule oracle judges the resulting timeline)

func c09SchedScenario(name string, p map[string]any) *schedScenario {
	role, answer := pstr(p, "role"), pstr(p, "answer")
	N := pint(p, "n")
	var o gridObs
	var c gridCase
	sc := &schedScenario{Name: "c09s", Params: p, Strict: true, Delay: true}
	sc.Body = func() {
		var w *world
		vsched.Deterministic(func() {
			w = newWorld(wcfg{Role: role, Buf: 10, HbMin: 1, HbMax: 100, HbInt: N})
		})
		o = gridObs{discAt: -1, stoppedAt: -1}
		o.logonAt = vsched.NowOffset()
		vsched.Deterministic(func() { w.logonOK(N) })
		answered := 0
		w.onOut = func(m []byte) {
			if mtype(m) == "1" && answered == 0 {
				answered++
				o.inAt = append(o.inAt, vsched.NowOffset())
				if answer == "heartbeat" {
					id, _ := get(m, "112")
					w.h.ServeIncoming(w.msg("0", "112="+id))
				} else {
					w.h.ServeIncoming(w.msg("D", "11=x"))
				}
			}
		}
		go func() {
			<-w.h.Context().Done()
			o.stoppedAt = vsched.NowOffset()
		}()
		T := time.Duration(N+tol(N)) * time.Second
		c = gridCase{Role: role, N: N, Horizon: int64((3*T + T/2) / time.Millisecond)}
		time.Sleep(3*T + T/2)
		vsched.Settle()
		o.outs = append([]outMsg{}, w.outs...)
		if w.ctxDone {
			o.discAt = w.ctxDoneAt
		}
		o.discEv, o.stopped = w.discEv, w.stopped
		o.end = vsched.NowOffset()
	}
	sc.Check = func(r *vsched.Result) (string, string) {
		s, d := c09Oracle(c, o)
		if s != "" {
			return "answered-probe:" + s, d
		}
		return "", ""
	}
	sc.Outcome = func() string {
		ntr := 0
		for _, m := range o.outs {
			if mtype(m.Msg) == "1" {
				ntr++
			}
		}
		return fmt.Sprintf("tr=%d disc=%v", ntr, o.discAt >= 0)
	}
	return sc
}

func runC09Sched(R *vlib.Out) {
	bound := 1
	if *vlib.Tier == "thorough" {
		bound = 2
	}
	var ps []map[string]any
	for _, role := range []string{"acc", "ini"} {
		for _, ans := range []string{"heartbeat", "other"} {
			ps = append(ps, map[string]any{"role": role, "answer": ans, "n": 1})
		}
	}
	saved := vsched.TrackStates
	vsched.TrackStates = true
	for i, p := range ps {
		if vlib.Expired() {
			R.Cap("deadline")
			break
		}
		scenarioBudget = vlib.Remaining() / 3 / time.Duration(len(ps)-i) // at most a third of the time: the grid follows
		sc := c09SchedScenario("c09s", p)
		sc.Bound = bound
		exploreSched(R, sc)
	}
	vsched.TrackStates = saved
}
