package main

// C14 — a TestRequest is answered by exactly one Heartbeat echoing its TestReqID, before any
// later inbound message is answered.  History exploration after a deterministic logon: the
// alphabet holds one TestRequest per TestReqID of a collision-forcing id set, other traffic, and
// back-to-back deliveries (two messages queued before the dispatcher runs).

import (
	"fmt"
	"strings"
	"time"

	fixgen "github.com/b2broker/simplefix-go/tests/fix44"
	"vlib"
	"vsched"
)

var c14IDs = []string{"a", "=", "1=2", "112=x", "10=000", "34=9", " ", "aloha", "8=FIX.4.4", "\x80\xfe\xff", "\x00", "35=0", strings.Repeat("L", 300), "0", "112="}

type c14Mon struct {
	exp map[string][]string // event name -> expected echoed ids in order
}

func (m *c14Mon) Key() string { return "" }

func (m *c14Mon) Step(w *world, ev event, outs []outMsg) (string, string) {
	if w.ctxDone || w.runDone {
		return "", "" // two silent periods in a row: the silent-peer rule has ended the session (C09)
	}
	want := m.exp[ev.Name]
	// heartbeats among the outputs, in order
	var hbs []outMsg
	earlier := w.outs[:len(w.outs)-len(outs)]
	for _, o := range outs {
		if !wellFormed(o.Msg) {
			return "malformed-outbound", show(o.Msg)
		}
		if strings.HasPrefix(ev.Name, "ResendRequest") {
			// a retransmission (byte-identical to something sent before, C10) is not an answer to anything
			dup := false
			for _, e := range earlier {
				if string(e.Msg) == string(o.Msg) {
					dup = true
					break
				}
			}
			if dup {
				continue
			}
		}
		if mtype(o.Msg) == "0" {
			if _, has := get(o.Msg, "112"); has { // unsolicited (periodic) heartbeats carry no TestReqID
				hbs = append(hbs, o)
			}
		}
	}
	if len(hbs) != len(want) {
		return fmt.Sprintf("heartbeat-count:%d!=%d", len(hbs), len(want)), fmt.Sprintf("%s: outs=%s", ev.Name, outsStr(outs))
	}
	for i, id := range want {
		got, ok := get(hbs[i].Msg, "112")
		if !ok || got != id {
			return "testreqid-not-echoed:" + idClass(id), fmt.Sprintf("%s: want %q got %q (%v) in %s", ev.Name, id, got, ok, show(hbs[i].Msg))
		}
	}
	// ordering: the reply to the k-th queued request precedes every output caused by a later message
	if len(want) > 0 && len(outs) > 0 && strings.HasPrefix(ev.Name, "Queued(") {
		if mtype(outs[0].Msg) != "0" {
			return "reply-not-first", outsStr(outs)
		}
	}
	return "", ""
}

func idClass(id string) string {
	switch {
	case len(id) > 100:
		return "long"
	case strings.Contains(id, "="):
		return "contains-equals"
	case id == " ":
		return "space"
	case id[0] >= 0x80 || id[0] == 0:
		return "binary"
	}
	return "plain"
}

func c14Cfgs(tier string) []*histCfg {
	var cfgs []*histCfg
	depth := 3
	if tier == "thorough" {
		depth = 5
	}
	for _, role := range []string{"acc", "ini"} {
		role := role
		mon := &c14Mon{exp: map[string][]string{}}
		var alpha []event
		for i, id := range c14IDs {
			id := id
			name := fmt.Sprintf("TestRequest(#%d)", i)
			mon.exp[name] = []string{id}
			alpha = append(alpha, event{Name: name, Do: func(w *world) { w.in(w.msg("1", "112="+id)) }})
		}
		// framing that is right but not written the way the library writes it: BodyLength with leading zeros, a
		// MsgSeqNum with leading zeros - the request is a request all the same
		for k, pad := range []string{"0", "000"} {
			pad := pad
			name := fmt.Sprintf("TestRequest(9=%sNN)", pad)
			id := fmt.Sprintf("pad%d", k)
			mon.exp[name] = []string{id}
			alpha = append(alpha, event{Name: name, Do: func(w *world) {
				fs := tokens(w.msg("1", "112="+id))
				w.in(reframe(fs, pad+fs[1].V))
			}})
		}
		alpha = append(alpha,
			event{Name: "Heartbeat", Do: func(w *world) { w.in(w.msg("0")) }},
			event{Name: "App(D)", Do: func(w *world) { w.in(w.msg("D", "11=x")) }},
			event{Name: "ResendRequest(1,1)", Do: func(w *world) { w.in(w.msg("2", "7=1", "16=1")) }},
			// everything sent so far is asked for again: earlier answers, and after a re-logon the old Logout and
			// Logon, pass through the outgoing path a second time
			event{Name: "ResendRequest(1,0)", Do: func(w *world) { w.in(w.msg("2", "7=1", "16=0")) }},
			event{Name: "local Send(app)", Do: func(w *world) { _ = w.s.Send(fixgen.NewMarketDataRequest()) }},
			// inbound silence just long enough for the session to send its own TestRequest: the peer's
			// TestRequest that follows crosses it on the wire
			event{Name: "Silence(32 s)", Do: func(w *world) { time.Sleep(32 * time.Second) }},
		)
		// the peer logs out and on again on the same connection: still exactly one answer per request afterwards
		alpha = append(alpha, event{Name: "Logout+Logon", Do: func(w *world) {
			w.in(w.msg("5"))
			w.in(w.msg("A", "98=0", "108=30"))
		}})
		// back-to-back: two (three) messages are queued before the dispatcher runs
		q := func(name string, exp []string, build func(w *world) [][]byte) {
			mon.exp[name] = exp
			alpha = append(alpha, event{Name: name, Do: func(w *world) {
				for _, m := range build(w) {
					w.h.ServeIncoming(m)
				}
			}})
		}
		q("Queued(TR a, TR 1=2)", []string{"a", "1=2"}, func(w *world) [][]byte {
			return [][]byte{w.msg("1", "112=a"), w.msg("1", "112=1=2")}
		})
		q("Queued(TR 112=x, Heartbeat, TR aloha)", []string{"112=x", "aloha"}, func(w *world) [][]byte {
			return [][]byte{w.msg("1", "112=112=x"), w.msg("0"), w.msg("1", "112=aloha")}
		})
		q("Queued(TR 10=000, ResendRequest(1,2))", []string{"10=000"}, func(w *world) [][]byte {
			return [][]byte{w.msg("1", "112=10=000"), w.msg("2", "7=1", "16=1")}
		})
		cfgs = append(cfgs, &histCfg{
			Name: "C14/" + role, Alphabet: alpha, Depth: depth,
			World:  func() *world { return newWorld(wcfg{Role: role, Buf: 10, HbMin: 5, HbMax: 30, HbInt: 30}) },
			NewMon: func(w *world) monitor { return mon },
			Setup:  func(w *world, m monitor) { w.logonOK(30) },
		})
	}
	return cfgs
}

// ---- C14, schedule part: "before any later inbound message is answered" behind a slow writer ----
// The peer stops reading for a while: the outgoing queue (4 slots) fills up while TestRequests keep
// arriving; then it reads again.  Every schedule within delay bound 1 (Q) / 2 (T): the Heartbeats leave in
// the order of the requests, one each.

func c14StallScenario(name string, p map[string]any) *schedScenario {
	role := pstr(p, "role")
	n := pint(p, "n")
	var outs []outMsg
	sc := &schedScenario{Name: "c14s", Params: p, Strict: true, Delay: true}
	sc.Body = func() {
		var w *world
		vsched.Deterministic(func() {
			w = newWorld(wcfg{Role: role, Buf: 4, HbMin: 5, HbMax: 30, HbInt: 30})
			w.logonOK(30)
			vsched.Settle()
		})
		w.take()
		w.hold = true
		go func() {
			for i := 0; i < n; i++ {
				w.h.ServeIncoming(w.msg("1", fmt.Sprintf("112=t%d", i)))
			}
		}()
		time.Sleep(time.Second)
		vsched.Settle()
		w.hold = false
		w.release <- struct{}{}
		time.Sleep(time.Second)
		vsched.Settle()
		outs = w.take()
	}
	sc.Check = func(r *vsched.Result) (string, string) {
		k := 0
		for _, o := range outs {
			if !wellFormed(o.Msg) {
				return "malformed-outbound", show(o.Msg)
			}
			if mtype(o.Msg) != "0" {
				continue
			}
			id, _ := get(o.Msg, "112")
			if id != fmt.Sprintf("t%d", k) {
				return "stall:answers-out-of-request-order", fmt.Sprintf("answer %d echoes %q: %s", k, id, outsStr(outs))
			}
			k++
		}
		if k != n {
			return fmt.Sprintf("stall:heartbeat-count:%d!=%d", k, n), outsStr(outs)
		}
		return "", ""
	}
	sc.Outcome = func() string { return fmt.Sprintf("stall answers=%d", len(outs)) }
	return sc
}

func runC14(R *vlib.Out) {
	cfgs := c14Cfgs(*vlib.Tier)
	if *vlib.ReplayPath != "" {
		var probe struct {
			Scenario string `json:"scenario"`
		}
		vlib.LoadReplay(&probe)
		if probe.Scenario == "c14s" {
			replaySched(R, c14StallScenario)
			finishSched(R)
			return
		}
		replayHist(R, cfgs)
		return
	}
	bound := 1
	if *vlib.Tier == "thorough" {
		bound = 2
	}
	for _, role := range []string{"acc", "ini"} {
		sc := c14StallScenario("c14s", map[string]any{"role": role, "n": 8})
		sc.Bound = bound
		scenarioBudget = vlib.Remaining() / 6
		exploreSched(R, sc)
	}
	scenarioBudget = 0
	for _, c := range cfgs {
		exploreHist(R, c)
	}
}
