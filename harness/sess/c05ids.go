package main

// C05, identifier part: "each such message also carries the session's sender and target identifiers (mirrored
// from the peer's Logon on the accepting side)".  Two accepting sessions built from ONE settings object - what an
// acceptor's per-connection callback does when it passes the same *LogonSettings to every NewAcceptorSession -
// are logged on by two different counterparties; every order of {logon A, logon B (accepted or refused), send on
// A, send on B} that respects "logon before send".  Each message carries the identifiers of its own session.

import (
	"fmt"
	"strings"
	"time"

	"github.com/b2broker/simplefix-go/session"
	fixgen "github.com/b2broker/simplefix-go/tests/fix44"
	"vlib"
	"vsched"
)

type c05iCase struct {
	Cfg     string `json:"cfg"`   // "c05ids"
	Order   string `json:"order"` // letters: A/B = Logon on session a/b, a/b = application send, t = TestRequest to a, u = to b
	RefuseB bool   `json:"refuse_b,omitempty"`
}

func c05iRun(c c05iCase) (string, string) {
	set := &session.LogonSettings{LogonTimeout: 30 * time.Second, HeartBtLimits: &session.IntLimits{Min: 1, Max: 60}}
	ws := map[byte]*world{}
	ids := map[byte][2]string{'a': {"ALPHA", "SRV"}, 'b': {"BRAVO", "DESK"}} // (peer, self)
	mk := func(k byte) *world {
		cfg := wcfg{Role: "acc", Buf: 10, Settings: set}
		if k == 'b' && c.RefuseB {
			cfg.RefuseLogon = func(*session.LogonSettings) error { return fmt.Errorf("not welcome") }
		}
		return newWorld(cfg)
	}
	ws['a'], ws['b'] = mk('a'), mk('b')
	seq := map[byte]int{'a': 1, 'b': 1}
	in := func(k byte, mt string, f ...string) {
		ws[k].in(rawFrom(ids[k][0], ids[k][1], mt, seq[k], f...))
		seq[k]++
	}
	for i := 0; i < len(c.Order); i++ {
		switch x := c.Order[i]; x {
		case 'A', 'B':
			in(x+32, "A", "98=0", "108=30")
		case 'a', 'b':
			_ = ws[x].s.Send(fixgen.NewMarketDataRequest().SetMDReqID("m"))
			vsched.Settle()
		case 't':
			in('a', "1", "112=T")
		case 'u':
			in('b', "1", "112=U")
		}
	}
	for _, k := range []byte{'a', 'b'} {
		logged := ws[k].s.IsLogged()
		for _, o := range ws[k].outs {
			if !wellFormed(o.Msg) {
				return "malformed-outbound", show(o.Msg)
			}
			s49, _ := get(o.Msg, "49")
			s56, _ := get(o.Msg, "56")
			// before a session has seen a Logon it has nobody to mirror (C06/C07 judge what it sends then)
			if !logged && s49 == "" && s56 == "" && !(k == 'b' && c.RefuseB) {
				continue
			}
			if k == 'b' && c.RefuseB {
				// the refused counterparty is answered with the identifiers mirrored from its own Logon
				if s49 != ids[k][1] || s56 != ids[k][0] {
					return "refusal-without-the-refused-peers-identifiers", fmt.Sprintf("session %c (refused): %s", k, show(o.Msg))
				}
				continue
			}
			if s49 != ids[k][1] || s56 != ids[k][0] {
				return "outbound-carries-other-sessions-identifiers", fmt.Sprintf("session %c (peer %s, self %s) sent %s; order %s", k, ids[k][0], ids[k][1], show(o.Msg), c.Order)
			}
		}
	}
	return "", ""
}

func runC05ids(R *vlib.Out) bool {
	// every interleaving of the two sessions' scripts "Logon, send, TestRequest, send"
	var orders []string
	var gen func(cur string, ia, ib int)
	sa, sb := "Aata", "Bbub"
	gen = func(cur string, ia, ib int) {
		if ia == len(sa) && ib == len(sb) {
			orders = append(orders, cur)
			return
		}
		if ia < len(sa) {
			gen(cur+sa[ia:ia+1], ia+1, ib)
		}
		if ib < len(sb) {
			gen(cur+sb[ib:ib+1], ia, ib+1)
		}
	}
	gen("", 0, 0)
	R.Bounds["identifier_orders"] = len(orders)
	unit := 0
	for _, o := range orders {
		for _, refuse := range []bool{false, true} {
			unit++
			if !vlib.Mine(unit) {
				continue
			}
			if vlib.Expired() {
				R.Cap("deadline")
				return false
			}
			c := c05iCase{Cfg: "c05ids", Order: o, RefuseB: refuse}
			if refuse {
				c.Order = strings.NewReplacer("b", "", "u", "").Replace(o) // nothing is sent through a session that refused its peer
			}
			R.Eval()
			sig, d, steps := execBody(func() (string, string) { return c05iRun(c) })
			R.Transitions += int64(steps)
			R.ClassU(fmt.Sprintf("c05ids/%s/%v", c.Order, refuse))
			R.Outcome("identifier part: ok")
			if sig != "" {
				R.Violate(sig, fmt.Sprintf("%+v: %s", c, d), c)
			}
		}
	}
	return true
}
