package main

// C13, two more ways a connection ends "at a point of its life":
//  refused  - the application turns a client away in the acceptor's per-connection callback (handler.Stop());
//             the peer is still there, has already hung up, or has reset the connection by then;
//  busy     - the initiator's handler is stopped (directly, or by the session's silent-peer rule) while the dispatch
//             loop is inside an application callback that takes long: the socket is closed without waiting for
//             the callback, and once the callback returns the serving call returns and nothing is left.
// Default schedule plus delay-bounded exploration (bound 1 quick / 2 thorough).

import (
	"context"
	"fmt"
	"strings"
	"time"

	simplefixgo "github.com/b2broker/simplefix-go"
	"github.com/b2broker/simplefix-go/session"
	"github.com/b2broker/simplefix-go/storages/memory"
	"vlib"
	"vsched"
)

type c13xObs struct {
	closedEarly, closed, served bool
	alive                       []string
	note                        string
}

func c13xBody(kind, how string, buf int, o *c13xObs) {
	*o = c13xObs{}
	cn := newConn(0)
	switch kind {
	case "refused":
		switch how {
		case "eof":
			cn.eof = true
		case "reset":
			cn.reset = true
		}
		l := &slistener{}
		acc := simplefixgo.NewAcceptor(l, simplefixgo.NewAcceptorHandlerFactory("35", buf), 5*time.Second, func(ah simplefixgo.AcceptorHandler) {
			time.Sleep(time.Second) // the application takes a moment to decide (the peer may be gone by then)
			ah.Stop()               // not welcome
		})
		go func() { _ = acc.ListenAndServe(); o.served = true }()
		l.q = append(l.q, cn)
		time.Sleep(10 * time.Second)
		vsched.Settle()
		o.closedEarly = cn.closed
		for _, t := range libTasks(vsched.Alive()) {
			if !strings.HasSuffix(t, "@accept") {
				o.note += " still-alive-before-close:" + t
			}
		}
		acc.Close()
		time.Sleep(10 * time.Second)
		vsched.Settle()
	case "busy":
		h := simplefixgo.NewInitiatorHandler(context.Background(), "35", buf)
		cl := simplefixgo.NewInitiator(cn, h, buf, 5*time.Second)
		st := memory.NewStorage()
		s, err := session.NewInitiatorSession(h, opts(), &session.LogonSettings{
			TargetCompID: "SRV", SenderCompID: "CLI", HeartBtInt: 1, EncryptMethod: "0", CloseTimeout: time.Second,
		}, st, st)
		if err != nil {
			panic(err)
		}
		release := make(chan struct{}, 1)
		h.HandleIncoming("D", func([]byte) bool { <-release; return true }) // a callback that takes its time
		go func() { _ = cl.Serve(); o.served = true }()
		_ = s.Run()
		vsched.Settle()
		cn.feed(rawFrom("SRV", "CLI", "A", 1, "98=0", "108=1"))
		vsched.Settle()
		cn.feed(rawFrom("SRV", "CLI", "D", 2, "11=slow"))
		vsched.Settle()
		if how == "hstop" {
			h.Stop()
			time.Sleep(3 * time.Second)
		} else {
			time.Sleep(12 * time.Second) // the peer is silent: TestRequest, then the session disconnects and stops the handler
		}
		vsched.Settle()
		o.closedEarly = cn.closed
		release <- struct{}{}
		time.Sleep(10 * time.Second)
		vsched.Settle()
	}
	o.closed = cn.closed
	o.alive = libTasks(vsched.Alive())
}

func c13xScenario(name string, p map[string]any) *schedScenario {
	kind, how, buf := pstr(p, "kind"), pstr(p, "how"), pint(p, "buf")
	var o c13xObs
	sc := &schedScenario{Name: "c13x", Params: p, Strict: true, Delay: true, MaxSteps: 400000}
	sc.Body = func() { c13xBody(kind, how, buf, &o) }
	sc.Check = func(r *vsched.Result) (string, string) {
		det := fmt.Sprintf("kind=%s how=%s closed-early=%v closed=%v served=%v alive=%v%s", kind, how, o.closedEarly, o.closed, o.served, o.alive, o.note)
		switch {
		case !o.closedEarly:
			return "x:socket-not-closed:" + kind, det
		case !o.served:
			return "x:serving-call-not-returned:" + kind, det
		case o.note != "":
			return "x:connection-tasks-outlive-the-connection:" + kind, det
		case len(o.alive) > 0:
			return "x:tasks-left:" + kind + ":" + strings.Join(uniq(o.alive), "+"), det
		}
		return "", ""
	}
	sc.Outcome = func() string {
		return fmt.Sprintf("x %s/%s closed=%v served=%v alive=%d", kind, how, o.closed, o.served, len(o.alive))
	}
	return sc
}

func runC13x(R *vlib.Out) {
	bound := 1
	if *vlib.Tier == "thorough" {
		bound = 2
	}
	var ps []map[string]any
	for _, buf := range []int{0, 10} {
		for _, how := range []string{"open", "eof", "reset"} {
			ps = append(ps, map[string]any{"kind": "refused", "how": how, "buf": buf})
		}
		for _, how := range []string{"hstop", "silent-peer"} {
			ps = append(ps, map[string]any{"kind": "busy", "how": how, "buf": buf})
		}
	}
	for i, p := range ps {
		if vlib.Expired() {
			R.Cap("deadline")
			return
		}
		scenarioBudget = vlib.Remaining() / time.Duration(4*(len(ps)-i))
		sc := c13xScenario("c13x", p)
		sc.Bound = bound
		exploreSched(R, sc)
	}
	scenarioBudget = 0
}
