package main

// C15 — Logout is acknowledged once; Stop ends on the peer's answer or at the deadline.
// Exhaustive over: role × close timeout {0, 1 s, 10 s} × traffic prefix (0..2 events) × ending
// {peer Logout, local Logout then peer answer, local Stop with the answer arriving never / before
// the deadline / exactly at it / after it}; thorough adds an expiring test-request timer between
// the local Logout and the answer (heartbeat interval 1 s and an answer delayed by 3 s).

import (
	"fmt"
	"time"

	fixgen "github.com/b2broker/simplefix-go/tests/fix44"
	"github.com/b2broker/simplefix-go/utils"
	"vlib"
	"vsched"
)

type c15Case struct {
	Role    string   `json:"role"`
	CloseMs int      `json:"close_timeout_ms"`
	Prefix  []string `json:"prefix"`
	Ending  string   `json:"ending"` // peer-logout | local-logout | stop
	AgainMs int      `json:"again_ms,omitempty"` // ending stop: Stop is called a second time this long after the first (an application retrying an unanswered Logout, or two shutdown paths), before the peer's answer
	Answer  string   `json:"answer"` // never | before | at | after   (stop), or "answer" (local-logout)
	HB      int      `json:"hb"`
	DelayMs int      `json:"answer_delay_ms,omitempty"`  // local-logout: delay before the peer's answer
	Buf     int      `json:"buf,omitempty"`              // outgoing queue size (default 10)
	Relogon bool     `json:"relogon,omitempty"`          // initiator: after the logout exchange the application calls LogonRequest again
	Veto    bool     `json:"veto,omitempty"`             // the application has a logout callback that returns false (it ends the chain of callbacks after it): Stop ends on the answer all the same
	LogonMs int      `json:"logon_timeout_ms,omitempty"` // acceptor's LogonTimeout (default 30 s): a time-out for a logon that never comes must not touch a session that did log on
}

func c15Run(c c15Case) (string, string) {
	ct := time.Duration(c.CloseMs) * time.Millisecond
	buf := 10
	if c.Buf > 0 {
		buf = c.Buf
	}
	w := newWorld(wcfg{Role: c.Role, Buf: buf, HbMin: 1, HbMax: 60, HbInt: c.HB, CloseTimeout: ct, LogonTimeout: time.Duration(c.LogonMs) * time.Millisecond})
	if c.Ending == "logout-in-logon-callback" {
		// the application logs the peer out from inside its logon callback (and has callbacks on the events that
		// follows): state changes nest inside a callback
		requested := 0
		w.s.OnChangeState(utils.EventRequest, func() bool { requested++; return true })
		w.s.OnChangeState(utils.EventLogon, func() bool { _ = w.s.Logout(); return true })
		outs := w.logonOK(c.HB)
		// one Logon either way: the acceptor's answer, or the initiator's own request (sent when the session was started)
		if countType(outs, "A") != 1 || countType(outs, "5") != 1 {
			return "logout-in-callback:logon-answer-or-logout-missing", fmt.Sprintf("outs=[%s]", outsStr(outs))
		}
		if w.s.IsLogged() {
			return "local-logout:still-logged", ""
		}
		w.in(w.msg("5"))
		if outs = w.take(); countType(outs, "5") != 0 {
			return "local-logout:second-logout-on-answer", fmt.Sprintf("outs=[%s]", outsStr(outs))
		}
		if w.logoutEv != 1 {
			return "local-logout:no-logout-event", fmt.Sprintf("EventLogout raised %d times", w.logoutEv)
		}
		w.h.Stop()
		vsched.Settle()
		if !w.runDone {
			return "logout-in-callback:handler-does-not-stop", ""
		}
		return "", ""
	}
	w.logonOK(c.HB)
	if !w.s.IsLogged() {
		return "setup:not-logged", ""
	}
	for _, p := range c.Prefix {
		switch p {
		case "TestRequest":
			w.in(w.msg("1", "112=p"))
		case "App":
			w.in(w.msg("D", "11=x"))
		case "LogoutRelogon":
			// an earlier, completed logout exchange on the same session, then the peer logs on again: this is the
			// second life of the session object when the ending begins
			_ = w.s.Logout()
			vsched.Settle()
			w.in(w.msg("5"))
			w.in(w.msg("A", "98=0", "108="+fmt.Sprint(c.HB)))
			if !w.s.IsLogged() {
				return "setup:relogon-not-accepted", outsStr(w.outs)
			}
		case "Send":
			_ = w.s.Send(fixgen.NewMarketDataRequest())
			vsched.Settle()
		case "Probe":
			// the peer is silent until the session probes it (needs a short heartbeat interval): the
			// session's own TestRequest is outstanding when the ending begins
			time.Sleep(time.Duration(c.HB)*time.Second + time.Duration(tol(c.HB))*time.Second + 100*time.Millisecond)
			vsched.Settle()
			if countType(w.outs, "1") == 0 {
				return "setup:no-testrequest", outsStr(w.outs)
			}
		case "StalledWriter":
			// the peer stops reading: the outgoing queue is full when the ending begins (and stays so)
			w.hold = true
			for i := 0; i < c.Buf+2; i++ {
				go func() { _ = w.s.Send(fixgen.NewMarketDataRequest()) }()
			}
			vsched.Settle()
		}
	}
	w.take()
	logoutEv0 := w.logoutEv
	if c.Veto {
		w.s.OnChangeState(utils.EventLogout, func() bool { return false })
	}
	switch c.Ending {
	case "peer-logout":
		w.in(w.msg("5"))
		outs := w.take()
		if countType(outs, "5") != 1 || len(outs) != 1 {
			return "peer-logout:not-acknowledged-once", fmt.Sprintf("outs=[%s]", outsStr(outs))
		}
		if w.s.IsLogged() {
			return "peer-logout:still-logged", ""
		}
		// a second Logout from the peer must not be acknowledged again with a Logout
		w.in(w.msg("5"))
		outs = w.take()
		if countType(outs, "5") != 0 {
			return "peer-logout:acknowledged-twice", fmt.Sprintf("outs=[%s]", outsStr(outs))
		}
	case "local-logout":
		_ = w.s.Logout()
		vsched.Settle()
		outs := w.take()
		if countType(outs, "5") != 1 {
			return "local-logout:no-logout-sent", fmt.Sprintf("outs=[%s]", outsStr(outs))
		}
		if w.s.IsLogged() {
			return "local-logout:still-logged", ""
		}
		if c.DelayMs > 0 {
			time.Sleep(time.Duration(c.DelayMs) * time.Millisecond)
			vsched.Settle()
			// timers may legitimately have produced Heartbeats / TestRequests meanwhile; a second Logout is not legitimate
			mid := w.take()
			if countType(mid, "5") != 0 {
				return "logout:second-logout-before-answer", fmt.Sprintf("outs=[%s]", outsStr(mid))
			}
			if w.ctxDone || w.runDone {
				return "", "" // the silent-peer rule (C09) ended the session first: nothing more to check here
			}
		}
		w.in(w.msg("5"))
		outs = w.take()
		if countType(outs, "5") != 0 {
			if c.DelayMs > 0 {
				return "logout:timer-overwrites-state", fmt.Sprintf("a second Logout was sent on the peer's answer: outs=[%s]", outsStr(outs))
			}
			return "local-logout:second-logout-on-answer", fmt.Sprintf("outs=[%s]", outsStr(outs))
		}
		if w.logoutEv != logoutEv0+1 {
			if c.DelayMs > 0 {
				return "logout:timer-overwrites-state:no-event", fmt.Sprintf("EventLogout raised %d times", w.logoutEv-logoutEv0)
			}
			return "local-logout:no-logout-event", fmt.Sprintf("EventLogout raised %d times", w.logoutEv-logoutEv0)
		}
	case "stop":
		t0 := vsched.NowOffset()
		stalled := len(c.Prefix) > 0 && c.Prefix[len(c.Prefix)-1] == "StalledWriter"
		if stalled {
			// Stop cannot hand its Logout over while the queue is full; the close timeout still applies
			go func() { _ = w.s.Stop() }()
			vsched.Settle()
		} else {
			if err := w.s.Stop(); err != nil {
				return "stop:error", err.Error()
			}
			vsched.Settle()
			outs := w.take()
			if countType(outs, "5") != 1 {
				return "stop:no-logout-sent", fmt.Sprintf("outs=[%s]", outsStr(outs))
			}
		}
		if c.AgainMs > 0 && !stalled {
			// the second Stop may send another Logout (the application asked for it) and its own error is not judged;
			// what the first Stop promised still holds: the answer, or the close timeout, cancels the context
			vsched.SleepUntil(t0 + time.Duration(c.AgainMs)*time.Millisecond)
			_ = w.s.Stop()
			vsched.Settle()
			w.take()
		}
		var answerAt time.Duration = -1
		switch c.Answer {
		case "before":
			answerAt = ct / 2
		case "at":
			answerAt = ct
		case "after":
			answerAt = ct + time.Second
		}
		if answerAt >= 0 {
			vsched.SleepUntil(t0 + answerAt)
			w.in(w.msg("5"))
		}
		vsched.SleepUntil(t0 + ct + 3*time.Second)
		vsched.Settle()
		want := ct
		if answerAt >= 0 && answerAt < ct {
			want = answerAt
		}
		if !w.ctxDone {
			return "stop:context-never-cancelled", fmt.Sprintf("close timeout %v answer %s", ct, c.Answer)
		}
		got := w.ctxDoneAt - t0
		if got != want {
			if got > want && answerAt >= 0 && answerAt < ct && got == ct {
				return "stop:answer-does-not-cancel", fmt.Sprintf("answer processed at +%v but the context was cancelled only at the deadline +%v", answerAt, got)
			}
			if got > want {
				return "stop:cancelled-late", fmt.Sprintf("cancelled at +%v, want +%v", got, want)
			}
			return "stop:cancelled-early", fmt.Sprintf("cancelled at +%v, want +%v", got, want)
		}
		later := w.take()
		if countType(later, "5") != 0 {
			if countType(later, "1") != 0 {
				// the session's test-request timer expired while the Logout was unanswered and replaced the
				// waiting-for-logout-answer state (same defect as logout:timer-overwrites-state, reached through Stop)
				return "stop:timer-overwrites-state", fmt.Sprintf("a second Logout was sent on the peer's late answer: outs=[%s]", outsStr(later))
			}
			return "stop:second-logout", fmt.Sprintf("outs=[%s]", outsStr(later))
		}
	}
	if c.Relogon && c.Role == "ini" && (c.Ending == "peer-logout" || c.Ending == "local-logout") && !w.ctxDone && !w.runDone {
		// the second use of an initiating session: after the logout exchange the application asks for a logon again
		w.take()
		_ = w.s.LogonRequest()
		vsched.Settle()
		outs := w.take()
		if countType(outs, "A") != 1 {
			return "relogon:logon-request-not-sent", fmt.Sprintf("LogonRequest after a completed logout: outs=[%s]", outsStr(outs))
		}
		w.in(w.msg("A", "98=0", "108="+fmt.Sprint(c.HB)))
		if !w.s.IsLogged() {
			return "relogon:not-logged-on", ""
		}
	}
	return "", ""
}

func runC15(R *vlib.Out) {
	if *vlib.ReplayPath != "" {
		var probe struct {
			Scenario string `json:"scenario"`
		}
		vlib.LoadReplay(&probe)
		if probe.Scenario == "c15s" {
			replaySched(R, c15SchedScenario)
			return
		}
		var c c15Case
		vlib.LoadReplay(&c)
		R.Eval()
		if sig, d, _ := execBody(func() (string, string) { return c15Run(c) }); sig != "" {
			R.Violate(sig, d, c)
		}
		return
	}
	prefixes := [][]string{{}}
	evs := []string{"TestRequest", "App", "Send"}
	for _, a := range evs {
		prefixes = append(prefixes, []string{a})
		for _, b := range evs {
			prefixes = append(prefixes, []string{a, b})
			if *vlib.Tier == "thorough" {
				for _, c := range evs {
					prefixes = append(prefixes, []string{a, b, c})
				}
			}
		}
	}
	closeTimeouts := []int{0, 1000, 10000}
	if *vlib.Tier == "thorough" {
		closeTimeouts = []int{0, 1, 100, 1000, 2500, 10000, 60000}
	}
	unit := 0
	try := func(c c15Case) bool {
		unit++
		if !vlib.Mine(unit) {
			return true
		}
		if vlib.Expired() {
			R.Cap("deadline")
			return false
		}
		R.Eval()
		sig, d, steps := execBody(func() (string, string) { return c15Run(c) })
		R.Transitions += int64(steps)
		key := fmt.Sprintf("%+v", c)
		R.State(key)
		R.ClassU(key)
		R.Sample(5, c)
		if sig != "" {
			R.Violate(sig, key+": "+d, c)
		} else {
			R.Outcome(c.Ending + "/" + c.Answer + " ok")
		}
		return true
	}
	defer runC15Sched(R)
	for _, role := range []string{"acc", "ini"} {
		for _, ct := range closeTimeouts {
			for _, p := range prefixes {
				if len(p) == 0 && !try(c15Case{Role: role, CloseMs: ct, Ending: "logout-in-logon-callback", HB: 30}) {
					return
				}
				if len(p) == 0 {
					for _, a := range []string{"never", "before", "at", "after"} {
						if !try(c15Case{Role: role, CloseMs: ct, Ending: "stop", Answer: a, HB: 30, Veto: true}) {
							return
						}
					}
				}
				if len(p) == 0 {
					for _, a := range []string{"never", "before", "at", "after"} {
						if !try(c15Case{Role: role, CloseMs: ct, Prefix: []string{"LogoutRelogon"}, Ending: "stop", Answer: a, HB: 30}) {
							return
						}
					}
					if !try(c15Case{Role: role, CloseMs: ct, Prefix: []string{"LogoutRelogon"}, Ending: "peer-logout", HB: 30}) ||
						!try(c15Case{Role: role, CloseMs: ct, Prefix: []string{"LogoutRelogon"}, Ending: "local-logout", Answer: "answer", HB: 30}) {
						return
					}
				}
				if role == "ini" && len(p) <= 1 {
					if !try(c15Case{Role: role, CloseMs: ct, Prefix: p, Ending: "peer-logout", HB: 30, Relogon: true}) ||
						!try(c15Case{Role: role, CloseMs: ct, Prefix: p, Ending: "local-logout", Answer: "answer", HB: 30, Relogon: true}) {
						return
					}
				}
				if !try(c15Case{Role: role, CloseMs: ct, Prefix: p, Ending: "peer-logout", HB: 30}) {
					return
				}
				if !try(c15Case{Role: role, CloseMs: ct, Prefix: p, Ending: "local-logout", Answer: "answer", HB: 30}) {
					return
				}
				for _, a := range []string{"never", "before", "at", "after"} {
					if !try(c15Case{Role: role, CloseMs: ct, Prefix: p, Ending: "stop", Answer: a, HB: 30}) {
						return
					}
				}
			}
		}
		// Stop called twice before the peer answers
		for _, ct := range closeTimeouts {
			if ct < 8 {
				continue
			}
			for _, again := range []int{1, ct / 4} {
				for _, a := range []string{"before", "at", "after", "never"} {
					for _, p := range [][]string{{}, {"App"}, {"LogoutRelogon"}} {
						if !try(c15Case{Role: role, CloseMs: ct, Prefix: p, Ending: "stop", Answer: a, HB: 30, AgainMs: again}) {
							return
						}
					}
				}
			}
		}
		// the session's own TestRequest is outstanding when the ending begins (heartbeat interval 1 s, endings
		// that complete before the next timer expiry)
		for _, p := range [][]string{{"Probe"}, {"Probe", "Send"}} {
			if !try(c15Case{Role: role, CloseMs: 1000, Prefix: p, Ending: "peer-logout", HB: 1}) ||
				!try(c15Case{Role: role, CloseMs: 1000, Prefix: p, Ending: "local-logout", Answer: "answer", HB: 1}) ||
				!try(c15Case{Role: role, CloseMs: 1000, Prefix: p, Ending: "stop", Answer: "before", HB: 1}) ||
				!try(c15Case{Role: role, CloseMs: 1000, Prefix: p, Ending: "stop", Answer: "never", HB: 1}) {
				return
			}
		}
		// a short logon timeout that elapses while the ending is in progress
		for _, a := range []string{"never", "before", "after"} {
			for _, p := range [][]string{{}, {"App"}} {
				if !try(c15Case{Role: role, CloseMs: 10000, Prefix: p, Ending: "stop", Answer: a, HB: 30, LogonMs: 1000}) {
					return
				}
			}
		}
		if !try(c15Case{Role: role, CloseMs: 10000, Ending: "local-logout", Answer: "answer", HB: 30, LogonMs: 1000, DelayMs: 2500}) {
			return
		}
		// the peer has stopped reading: the outgoing queue is full when Stop is called; the deadline still holds
		for _, buf := range []int{1, 2} {
			for _, ct := range []int{300, 1000} {
				if !try(c15Case{Role: role, CloseMs: ct, Prefix: []string{"StalledWriter"}, Ending: "stop", Answer: "never", HB: 30, Buf: buf}) {
					return
				}
			}
		}
		// timers running between the local Logout and the peer's answer
		for _, hb := range []int{1, 2} {
			for _, delay := range []int{500, 1500, 2500, 3500} {
				for _, p := range prefixes[:4] {
					if !try(c15Case{Role: role, CloseMs: 10000, Prefix: p, Ending: "local-logout", Answer: "answer", HB: hb, DelayMs: delay}) {
						return
					}
				}
			}
		}
	}
}

// ---- schedule exploration: the peer answers the Logout the instant it is on the wire ----

type c15SObs struct {
	logouts   int
	logoutEv  int
	ctxDone   bool
	ctxDoneAt time.Duration
	answerAt  time.Duration
	t0        time.Duration
	errs      int
}

func c15SchedScenario(name string, p map[string]any) *schedScenario {
	role, how, buf := pstr(p, "role"), pstr(p, "how"), pint(p, "buf")
	var obs c15SObs
	sc := &schedScenario{Name: "c15s", Params: p, Strict: true, Delay: false}
	sc.Body = func() {
		obs = c15SObs{answerAt: -1}
		var w *world
		vsched.Deterministic(func() {
			w = newWorld(wcfg{Role: role, Buf: buf, HbMin: 1, HbMax: 60, HbInt: 30, CloseTimeout: 10 * time.Second})
			w.logonOK(30)
			time.Sleep(500 * time.Millisecond)
			vsched.Settle()
		})
		w.take()
		ev0 := w.logoutEv
		answered := false
		w.onOut = func(m []byte) {
			if mtype(m) == "5" && !answered {
				answered = true
				obs.answerAt = vsched.NowOffset()
				w.h.ServeIncoming(w.msg("5")) // the peer's Logout answer, causally after our Logout left
			}
		}
		obs.t0 = vsched.NowOffset()
		if how == "stop" {
			if err := w.s.Stop(); err != nil {
				obs.errs++
			}
		} else {
			_ = w.s.Logout()
		}
		vsched.Settle()
		time.Sleep(15 * time.Second)
		vsched.Settle()
		obs.logouts = countType(w.outs[w.taken:], "5")
		obs.logoutEv = w.logoutEv - ev0
		obs.ctxDone, obs.ctxDoneAt = w.ctxDone, w.ctxDoneAt
	}
	sc.Check = func(r *vsched.Result) (string, string) {
		det := fmt.Sprintf("logouts=%d EventLogout=%d ctxDone=%v at +%v answer at +%v", obs.logouts, obs.logoutEv, obs.ctxDone, obs.ctxDoneAt-obs.t0, obs.answerAt-obs.t0)
		if obs.logouts != 1 {
			return "race:second-logout-on-immediate-answer", det
		}
		if how == "logout" && obs.logoutEv != 1 {
			return "race:logout-event-not-raised-on-immediate-answer", det
		}
		if how == "stop" {
			if !obs.ctxDone {
				return "race:stop-context-never-cancelled", det
			}
			if obs.ctxDoneAt != obs.answerAt {
				return "race:stop-immediate-answer-does-not-cancel", det
			}
		}
		return "", ""
	}
	sc.Outcome = func() string {
		return fmt.Sprintf("logouts=%d ev=%d ctx@+%v", obs.logouts, obs.logoutEv, obs.ctxDoneAt-obs.t0)
	}
	return sc
}

func runC15Sched(R *vlib.Out) {
	bound := 1
	if *vlib.Tier == "thorough" {
		bound = 2
	}
	var ps []map[string]any
	for _, role := range []string{"acc", "ini"} {
		for _, how := range []string{"logout", "stop"} {
			for _, buf := range []int{0, 1, 10} {
				ps = append(ps, map[string]any{"role": role, "how": how, "buf": buf})
			}
		}
	}
	for i, p := range ps {
		if vlib.Expired() {
			R.Cap("deadline")
			break
		}
		scenarioBudget = 4 * vlib.Remaining() / time.Duration(len(ps)-i) // most scenarios finish far below their share
		sc := c15SchedScenario("c15s", p)
		sc.Bound = bound
		exploreSched(R, sc)
	}
}
