package main

// C04 — the inbound stream is reassembled into exactly the messages sent, per connection, and
// outbound messages leave whole, un-interleaved and in hand-off order.  H2 level: the real Conn,
// Initiator / Acceptor and DefaultHandler run on a scripted net.Conn / net.Listener.
//   (a) partition enumeration (default schedule): message sequences x every partition of the
//       concatenated stream with <= 2 cut points, plus one byte per read and one message per read;
//       buffer sizes 0/1/10; both roles; two simultaneous connections on one acceptor;
//   (b) schedule exploration (delay bounding) on representative partitions;
//   (c) outbound: two tasks sending concurrently through Send and SendRaw.

import (
	"bytes"
	"context"
	"fmt"
	"strconv"
	"strings"
	"time"

	simplefixgo "github.com/b2broker/simplefix-go"
	"github.com/b2broker/simplefix-go/session/messages"
	"vlib"
	"vsched"
)

func appMsg(seq int, fields ...string) []byte {
	return rawFrom("PEER", "SELF", "D", seq, fields...)
}

// message pool: different lengths and types, values and tags that look like the end-of-message tag
var c04PoolCache [][]byte

func c04Pool() [][]byte {
	if c04PoolCache == nil {
		c04PoolCache = c04PoolBuild()
	}
	return c04PoolCache
}

func c04PoolBuild() [][]byte {
	return [][]byte{
		appMsg(1, "11=x"),
		rawFrom("PEER", "SELF", "0", 2, "112=see 10=abc"),               // a value ending in "10=" + three bytes, right before a delimiter
		appMsg(3, "110=100", "210=abc", "58=10=000"),                    // tags ending in 10 with three-byte values; a value that starts with 10=
		rawFrom("PEER", "SELF", "8", 4, "58="+strings.Repeat("L", 260)), // longer than one bufio fill when cut
		appMsg(5, "58=\x0210=", "1010=10="),
		// a field longer than bufio's 4096-byte buffer whose text carries "10=" exactly 4096 and 8192 bytes after the field start
		appMsg(6, "58="+strings.Repeat("x", 4093)+"10=abc"+strings.Repeat("y", 4090)+"10=", "11=after"),
		// look-alikes of the start of a message: the bytes "8=FIX" as the tail of a longer tag whose value
		// continues like a BeginString, and as text inside a value
		appMsg(7, "58=FIX.4.2 is not supported", "448=FIXBROKER"),
		rawFrom("PEER", "SELF", "3", 8, "58=unexpected 8=FIX.4.4 in the middle", "45=7"),
		// index 8, only used on a second connection: correctly framed, but without a MsgType - the handler cannot
		// dispatch it and, by design, ends that connection with an error (which is not "connection closed")
		frameFields([]fld{{"49", "PEER"}, {"56", "SELF"}, {"34", "9"}, {"58", "no type"}}),
		// index 9, dedicated sequences only: one field of 70,000 bytes (longer than any fixed token or line limit of 64 KiB)
		appMsg(10, "58="+strings.Repeat("z", 70000), "11=after-the-long-field"),
	}
}

const c04Poison = 8

type c04Obs struct {
	seen     map[int][][]byte // connection index -> messages handed to its handler
	overlap  bool
	served   bool
	serveErr error
	closed   []bool
	written  [][]byte
	handoff  []string
	notes    string
	stream   []byte
	handed   []byte
}

type c04Case struct {
	Role    string `json:"role"`
	Buf     int    `json:"buf"`
	Seq     []int  `json:"seq"`                // pool indices sent on connection 0
	Seq2    []int  `json:"seq2,omitempty"`     // second connection (acceptor only)
	Cuts    []int  `json:"cuts"`               // cut positions in the concatenated stream; [-1] = one byte per read; [-2] = one message per read
	Mode    string `json:"mode"`               // "inbound" | "outbound"
	StallMs int    `json:"stall_ms,omitempty"` // > 0: the peer pauses this long (virtual time) between the chunks
	// OutFirst: this side writes one message of its own before the peer's bytes arrive (the write path arms its
	// deadline; with a pause longer than that deadline the reader must still be there afterwards)
	OutFirst bool `json:"out_first,omitempty"`
	// OtherFirst: the second connection gets its bytes (and, if they end it, ends) one second before the first
	// connection's bytes arrive
	OtherFirst bool `json:"other_first,omitempty"`
	// Trunc > 0: the peer's stream ends that many bytes before the end of its last message (then end of stream): the
	// unfinished message is nobody's message
	Trunc int `json:"trunc,omitempty"`
}

func streamOf(seq []int) ([]byte, [][]byte) {
	pool := c04Pool()
	var s []byte
	var msgs [][]byte
	for _, i := range seq {
		s = append(s, pool[i]...)
		msgs = append(msgs, pool[i])
	}
	return s, msgs
}

func chunksOf(stream []byte, msgs [][]byte, cuts []int) [][]byte {
	if len(cuts) == 1 && cuts[0] == -1 {
		var out [][]byte
		for i := range stream {
			out = append(out, stream[i:i+1])
		}
		return out
	}
	if len(cuts) == 1 && cuts[0] == -2 {
		return msgs
	}
	var out [][]byte
	prev := 0
	for _, c := range cuts {
		if c > prev && c < len(stream) {
			out = append(out, stream[prev:c])
			prev = c
		}
	}
	out = append(out, stream[prev:])
	return out
}

// feedChunks hands the chunks to the connection; with a stall the peer pauses between them, longer
// than any read deadline / poll interval the library may use.
func feedChunks(cn *sconn, chunks [][]byte, stallMs int) {
	if stallMs <= 0 {
		cn.feed(chunks...)
		return
	}
	for i, ch := range chunks {
		if i > 0 {
			time.Sleep(time.Duration(stallMs) * time.Millisecond)
		}
		cn.feed(ch)
		vsched.Settle()
	}
}

// c04InboundStop: the handler is stopped while a callback is running and further messages are queued
// behind it - from inside that callback, or by another task (handler.Stop / Initiator.Close /
// Acceptor.Close) that the callback releases.  Whatever is still delivered must come one at a time, in
// the order sent, each message at most once (a stop may cut the delivery short, nothing else).
func c04InboundStop(c c04Case, obs *c04Obs) {
	*obs = c04Obs{seen: map[int][][]byte{}}
	how := "callback"
	if len(c.Cuts) > 0 {
		how = []string{"callback", "other-task-stop", "other-task-close"}[c.Cuts[0]%3]
	}
	busy := 0
	started := make(chan struct{}, 1)
	var stopper func()
	record := func(m []byte) bool {
		busy++
		if busy > 1 {
			obs.overlap = true
		}
		obs.seen[0] = append(obs.seen[0], append([]byte{}, m...))
		if len(obs.seen[0]) == 1 {
			if how == "callback" {
				stopper()
			} else {
				started <- struct{}{}
			}
		}
		vsched.Preempt() // the callback takes its time
		vsched.Preempt()
		busy--
		return true
	}
	s1, m1 := streamOf(c.Seq)
	cn := newConn(0)
	var closer func()
	if c.Role == "ini" {
		h := simplefixgo.NewInitiatorHandler(context.Background(), "35", c.Buf)
		h.HandleIncoming(simplefixgo.AllMsgTypes, record)
		cl := simplefixgo.NewInitiator(cn, h, c.Buf, 5*time.Second)
		stopper, closer = h.Stop, cl.Close
		go func() { obs.serveErr = cl.Serve(); obs.served = true }()
	} else {
		l := &slistener{}
		var hh simplefixgo.AcceptorHandler
		a := simplefixgo.NewAcceptor(l, simplefixgo.NewAcceptorHandlerFactory("35", c.Buf), 5*time.Second, func(h simplefixgo.AcceptorHandler) {
			hh = h
			h.HandleIncoming(simplefixgo.AllMsgTypes, record)
		})
		stopper = func() { hh.(*simplefixgo.DefaultHandler).Stop() }
		closer = a.Close
		go func() { obs.serveErr = a.ListenAndServe(); obs.served = true }()
		l.q = append(l.q, cn)
	}
	if how != "callback" {
		go func() {
			<-started
			if how == "other-task-stop" {
				stopper()
			} else {
				closer()
			}
		}()
	}
	vsched.Settle()
	cn.feed(chunksOf(s1, m1, []int{-2})...)
	time.Sleep(10 * time.Second)
	vsched.Settle()
	cn.eof = true
	time.Sleep(10 * time.Second)
	vsched.Settle()
	closer()
	time.Sleep(10 * time.Second)
	vsched.Settle()
}

func c04CheckStop(c c04Case, obs *c04Obs) (string, string) {
	if obs.overlap {
		return "stop:callbacks-overlap", fmt.Sprintf("a second callback started while one was running (%d delivered)", len(obs.seen[0]))
	}
	pool := c04Pool()
	got := obs.seen[0]
	if len(got) > len(c.Seq) {
		return "stop:message-delivered-twice", fmt.Sprintf("%d deliveries of %d messages", len(got), len(c.Seq))
	}
	for k, m := range got {
		if !bytes.Equal(m, pool[c.Seq[k]]) {
			return "stop:out-of-order-or-altered", fmt.Sprintf("delivery %d is %q, sent %q", k, show(m), show(pool[c.Seq[k]]))
		}
	}
	return "", ""
}

// c04Body runs one inbound scenario and fills obs.
func c04Inbound(c c04Case, obs *c04Obs) {
	*obs = c04Obs{seen: map[int][][]byte{}}
	inCB := map[int]int{} // per connection: callbacks of one connection must never overlap (two connections may)
	record := func(idx int) simplefixgo.IncomingHandlerFunc {
		return func(m []byte) bool {
			inCB[idx]++
			if inCB[idx] > 1 {
				obs.overlap = true
			}
			obs.seen[idx] = append(obs.seen[idx], append([]byte{}, m...))
			vsched.Preempt() // an arbitrary delay inside the callback: a second callback could start here if it were possible
			inCB[idx]--
			return true
		}
	}
	s1, m1 := streamOf(c.Seq)
	if c.Trunc > 0 && c.Trunc < len(s1) {
		s1 = s1[:len(s1)-c.Trunc]
	}
	conns := []*sconn{newConn(0)}
	if c.Role == "ini" {
		h := simplefixgo.NewInitiatorHandler(context.Background(), "35", c.Buf)
		h.HandleIncoming(simplefixgo.AllMsgTypes, record(0))
		cl := simplefixgo.NewInitiator(conns[0], h, c.Buf, 5*time.Second)
		go func() { obs.serveErr = cl.Serve(); obs.served = true }()
		vsched.Settle()
		if c.OutFirst {
			_ = h.SendRaw(rawFrom("SELF", "PEER", "D", 1, "11=own"))
			vsched.Settle()
		}
		feedChunks(conns[0], chunksOf(s1, m1, c.Cuts), c.StallMs)
		vsched.Settle()
		conns[0].eof = true
		time.Sleep(10 * time.Second)
		vsched.Settle()
	} else {
		l := &slistener{}
		idx := 0
		var sendRaw0 func([]byte) error
		a := simplefixgo.NewAcceptor(l, simplefixgo.NewAcceptorHandlerFactory("35", c.Buf), 5*time.Second, func(h simplefixgo.AcceptorHandler) {
			my := idx // taken before any scheduling point: two serve tasks may be in here at once
			idx++
			h.HandleIncoming(simplefixgo.AllMsgTypes, record(my))
			if my == 0 {
				sendRaw0 = h.SendRaw
			}
		})
		go func() { obs.serveErr = a.ListenAndServe(); obs.served = true }()
		if len(c.Seq2) > 0 {
			conns = append(conns, newConn(1))
		}
		for _, cn := range conns {
			l.q = append(l.q, cn)
		}
		vsched.Settle()
		if c.OutFirst && sendRaw0 != nil {
			_ = sendRaw0(rawFrom("SELF", "PEER", "D", 1, "11=own"))
			vsched.Settle()
		}
		if c.OtherFirst && len(c.Seq2) > 0 {
			s2, m2 := streamOf(c.Seq2)
			conns[1].feed(chunksOf(s2, m2, []int{-2})...)
			vsched.Settle()
			time.Sleep(time.Second)
			vsched.Settle()
		}
		feedChunks(conns[0], chunksOf(s1, m1, c.Cuts), c.StallMs)
		if len(c.Seq2) > 0 && !c.OtherFirst {
			s2, m2 := streamOf(c.Seq2)
			conns[1].feed(chunksOf(s2, m2, []int{-2})...)
		}
		vsched.Settle()
		for _, cn := range conns {
			cn.eof = true
		}
		time.Sleep(10 * time.Second)
		vsched.Settle()
		a.Close()
		time.Sleep(10 * time.Second)
		vsched.Settle()
	}
	for _, cn := range conns {
		obs.closed = append(obs.closed, cn.closed)
	}
}

// c04CheckInbound: handlers are created in the order in which the per-connection serve tasks reach
// handleNewClient, which depends on the schedule; so the oracle accepts either assignment of the two
// handlers to the two connections (the statement is about connections, not about creation order).
func c04CheckInbound(c c04Case, obs *c04Obs) (string, string) {
	if obs.overlap {
		return "callbacks-overlap", ""
	}
	want := [][]int{c.Seq}
	if c.Trunc > 0 {
		want = [][]int{c.Seq[:len(c.Seq)-1]}
	}
	if len(c.Seq2) > 0 {
		var w2 []int
		for _, i := range c.Seq2 {
			if i == c04Poison {
				break // nothing is delivered from the message without a MsgType on
			}
			w2 = append(w2, i)
		}
		want = append(want, w2)
		s1, d1 := c04Match(c, obs.seen, want)
		if s1 == "" {
			return "", ""
		}
		swapped := map[int][][]byte{0: obs.seen[1], 1: obs.seen[0]}
		if s2, _ := c04Match(c, swapped, want); s2 == "" {
			return "", ""
		}
		return s1, d1
	}
	return c04Match(c, obs.seen, want)
}

func c04Match(c c04Case, seen map[int][][]byte, want [][]int) (string, string) {
	pool := c04Pool()
	for ci, seq := range want {
		got := seen[ci]
		for k := 0; k < len(got) || k < len(seq); k++ {
			if k >= len(got) {
				return "message-lost", fmt.Sprintf("conn %d: got %d of %d messages (cuts %v)", ci, len(got), len(seq), c.Cuts)
			}
			if k >= len(seq) {
				return "message-extra-or-split", fmt.Sprintf("conn %d: extra delivery %q (cuts %v)", ci, show(got[k]), c.Cuts)
			}
			if !bytes.Equal(got[k], pool[seq[k]]) {
				// whose message is it?
				for oi, os := range want {
					if oi == ci {
						continue
					}
					for _, pi := range os {
						if bytes.Equal(got[k], pool[pi]) {
							return "cross-talk", fmt.Sprintf("conn %d was handed a message of conn %d", ci, oi)
						}
					}
				}
				return "message-altered-or-misframed", fmt.Sprintf("conn %d delivery %d: got %q want %q (cuts %v)", ci, k, show(got[k]), show(pool[seq[k]]), c.Cuts)
			}
		}
	}
	return "", ""
}

// c04Sequential: connections that follow one another on one acceptor.  The first peer stops reading while messages
// for it are queued (its connection ends when the write deadline passes); the second connection gets nothing of
// what was meant for the first, and its handler none of the first one's inbound messages.
func c04Sequential(c c04Case, obs *c04Obs) {
	*obs = c04Obs{seen: map[int][][]byte{}}
	cnA, cnB := newConn(0), newConn(1)
	cnA.blockW = true
	l := &slistener{}
	var sends []func([]byte) error
	a := simplefixgo.NewAcceptor(l, simplefixgo.NewAcceptorHandlerFactory("35", c.Buf), 5*time.Second, func(h simplefixgo.AcceptorHandler) {
		my := len(sends)
		sends = append(sends, h.SendRaw)
		h.HandleIncoming(simplefixgo.AllMsgTypes, func(m []byte) bool {
			obs.seen[my] = append(obs.seen[my], append([]byte{}, m...))
			return true
		})
	})
	go func() { obs.serveErr = a.ListenAndServe(); obs.served = true }()
	l.q = append(l.q, cnA)
	vsched.Settle()
	if len(sends) != 1 {
		obs.notes = "setup: first connection not accepted"
		return
	}
	for i := 0; i < 3; i++ {
		i := i
		go func() { _ = sends[0](rawFrom("SELF", "PEER-A", "D", i+1, fmt.Sprintf("11=for-the-first-peer-%d", i))) }()
	}
	cnA.feed(c04Pool()[0])
	time.Sleep(12 * time.Second) // the write deadline (5 s) passes: the first connection is torn down
	vsched.Settle()
	l.q = append(l.q, cnB)
	vsched.Settle()
	cnB.feed(c04Pool()[1])
	time.Sleep(2 * time.Second)
	vsched.Settle()
	obs.stream = append([]byte{}, cnB.stream()...)
	obs.closed = []bool{cnA.closed, cnB.closed}
	a.Close()
	time.Sleep(10 * time.Second)
	vsched.Settle()
}

func c04CheckSequential(c c04Case, obs *c04Obs) (string, string) {
	if obs.notes != "" {
		return "setup", obs.notes
	}
	if len(obs.stream) != 0 {
		return "cross-talk:outbound", fmt.Sprintf("the second connection was sent %d bytes nobody sent on it: %s", len(obs.stream), show(obs.stream[:min(len(obs.stream), 200)]))
	}
	pool := c04Pool()
	if len(obs.seen[1]) != 1 || !bytes.Equal(obs.seen[1][0], pool[1]) {
		return "cross-talk:inbound", fmt.Sprintf("the second connection's handler saw %d message(s), first %q", len(obs.seen[1]), showFirst(obs.seen[1]))
	}
	if len(obs.closed) == 2 && !obs.closed[0] {
		return "sequential:first-connection-not-closed", ""
	}
	return "", ""
}

func showFirst(ms [][]byte) string {
	if len(ms) == 0 {
		return ""
	}
	return show(ms[0])
}

// ---- outbound ----

type rawMsg struct {
	typ  string
	data []byte
}

func (m rawMsg) HeaderBuilder() messages.HeaderBuilder { return nil }
func (m rawMsg) MsgType() string                       { return m.typ }
func (m rawMsg) ToBytes() ([]byte, error)              { return m.data, nil }

func c04Outbound(c c04Case, obs *c04Obs) {
	*obs = c04Obs{seen: map[int][][]byte{}}
	cn := newConn(0)
	var send func(m rawMsg) error
	var sendRaw func(b []byte) error
	vsched.Deterministic(func() {
		if c.Role == "ini" {
			h := simplefixgo.NewInitiatorHandler(context.Background(), "35", c.Buf)
			h.HandleOutgoing(simplefixgo.AllMsgTypes, func(m simplefixgo.SendingMessage) bool {
				b, _ := m.ToBytes()
				v, _ := get(b, "11")
				obs.handoff = append(obs.handoff, v)
				return true
			})
			cl := simplefixgo.NewInitiator(cn, h, c.Buf, 5*time.Second)
			go func() { obs.serveErr = cl.Serve(); obs.served = true }()
			send = func(m rawMsg) error { return h.Send(m) }
			sendRaw = h.SendRaw
		} else {
			l := &slistener{q: nil}
			a := simplefixgo.NewAcceptor(l, simplefixgo.NewAcceptorHandlerFactory("35", c.Buf), 5*time.Second, func(h simplefixgo.AcceptorHandler) {
				h.HandleOutgoing(simplefixgo.AllMsgTypes, func(m simplefixgo.SendingMessage) bool {
					b, _ := m.ToBytes()
					v, _ := get(b, "11")
					obs.handoff = append(obs.handoff, v)
					return true
				})
				send = func(m rawMsg) error { return h.Send(m) }
				sendRaw = h.SendRaw
			})
			go func() { obs.serveErr = a.ListenAndServe(); obs.served = true }()
			l.q = append(l.q, cn)
		}
		vsched.Settle()
	})
	done := make(chan struct{}, 3)
	mk := func(id string) []byte { return rawFrom("SELF", "PEER", "D", 1, "11="+id, "58=10=000") }
	go func() {
		for i := 0; i < 2; i++ {
			_ = send(rawMsg{"D", mk(fmt.Sprintf("a%d", i))})
		}
		done <- struct{}{}
	}()
	go func() {
		for i := 0; i < 2; i++ {
			_ = send(rawMsg{"D", mk(fmt.Sprintf("b%d", i))})
		}
		done <- struct{}{}
	}()
	go func() {
		_ = sendRaw(mk("r0"))
		_ = sendRaw(mk("r1"))
		done <- struct{}{}
	}()
	<-done
	<-done
	<-done
	vsched.Settle()
	obs.written = nil
	msgs, rest := splitStream(cn.stream())
	obs.written = msgs
	if len(rest) > 0 {
		obs.notes = "trailing bytes: " + show(rest)
	}
}

// c04OutboundPartial: four messages are handed over one after the other; the Cuts[0]-th Write accepts
// only Cuts[1] bytes and then reports a timeout (a stalled peer and a short write deadline).
func c04OutboundPartial(c c04Case, obs *c04Obs) {
	*obs = c04Obs{seen: map[int][][]byte{}}
	cn := newConn(0)
	cn.partialAt, cn.partialN = c.Cuts[0], c.Cuts[1]
	var sendRaw func(b []byte) error
	if c.Role == "ini" {
		h := simplefixgo.NewInitiatorHandler(context.Background(), "35", c.Buf)
		cl := simplefixgo.NewInitiator(cn, h, c.Buf, 5*time.Second)
		go func() { obs.serveErr = cl.Serve(); obs.served = true }()
		sendRaw = h.SendRaw
	} else {
		l := &slistener{}
		a := simplefixgo.NewAcceptor(l, simplefixgo.NewAcceptorHandlerFactory("35", c.Buf), 5*time.Second, func(h simplefixgo.AcceptorHandler) {
			sendRaw = h.SendRaw
		})
		go func() { obs.serveErr = a.ListenAndServe(); obs.served = true }()
		l.q = append(l.q, cn)
	}
	vsched.Settle()
	for i := 0; i < 4; i++ {
		m := rawFrom("SELF", "PEER", "D", i+1, fmt.Sprintf("11=m%d", i), "58=payload-of-some-length")
		obs.handed = append(obs.handed, m...)
		done := false
		go func() { _ = sendRaw(m); done = true }()
		time.Sleep(time.Second)
		vsched.Settle()
		_ = done
	}
	time.Sleep(20 * time.Second)
	vsched.Settle()
	obs.stream = cn.stream()
}

// c04OutboundBurst: the first Write is held (a momentarily slow peer) while a burst of messages of very
// different sizes (Cuts = sizes in bytes) queues up behind it in the handler's outgoing buffer; then the
// peer reads again.  Everything must reach the wire whole and in hand-off order.
func c04OutboundBurst(c c04Case, obs *c04Obs) {
	*obs = c04Obs{seen: map[int][][]byte{}}
	cn := newConn(0)
	cn.holdW = true
	var sendRaw func(b []byte) error
	if c.Role == "ini" {
		h := simplefixgo.NewInitiatorHandler(context.Background(), "35", c.Buf)
		cl := simplefixgo.NewInitiator(cn, h, c.Buf, 5*time.Second)
		go func() { obs.serveErr = cl.Serve(); obs.served = true }()
		sendRaw = h.SendRaw
	} else {
		l := &slistener{}
		a := simplefixgo.NewAcceptor(l, simplefixgo.NewAcceptorHandlerFactory("35", c.Buf), 5*time.Second, func(h simplefixgo.AcceptorHandler) {
			sendRaw = h.SendRaw
		})
		go func() { obs.serveErr = a.ListenAndServe(); obs.served = true }()
		l.q = append(l.q, cn)
	}
	vsched.Settle()
	done := make(chan struct{}, 1)
	go func() {
		for i, size := range c.Cuts {
			pad := size - 90
			if pad < 1 {
				pad = 1
			}
			m := rawFrom("SELF", "PEER", "D", i+1, fmt.Sprintf("11=m%d", i), "58="+strings.Repeat("p", pad))
			obs.handed = append(obs.handed, m...)
			_ = sendRaw(m)
		}
		done <- struct{}{}
	}()
	vsched.Settle() // the writer sits in the held Write, the rest of the burst is queued (or the sender waits)
	cn.holdW = false
	<-done
	time.Sleep(5 * time.Second)
	vsched.Settle()
	obs.stream = cn.stream()
}

func c04CheckBurst(c c04Case, obs *c04Obs) (string, string) {
	if !bytes.Equal(obs.handed, obs.stream) {
		n := 0
		for n < len(obs.stream) && n < len(obs.handed) && obs.stream[n] == obs.handed[n] {
			n++
		}
		return "outbound-burst-not-in-handoff-order", fmt.Sprintf("sizes %v: %d bytes on the wire, %d handed off, first difference at byte %d", c.Cuts, len(obs.stream), len(obs.handed), n)
	}
	return "", ""
}

func c04CheckPartial(c c04Case, obs *c04Obs) (string, string) {
	// whatever reached the wire is a prefix of the hand-off order (the connection may die after the fault,
	// but it never repeats, skips or reorders bytes)
	if !bytes.HasPrefix(obs.handed, obs.stream) {
		n := 0
		for n < len(obs.stream) && n < len(obs.handed) && obs.stream[n] == obs.handed[n] {
			n++
		}
		return "outbound-stream-not-a-prefix-of-handoff", fmt.Sprintf("%d bytes on the wire, %d handed off, first difference at %d: wire ...%q", len(obs.stream), len(obs.handed), n, show(obs.stream[max0(n-20):min2(len(obs.stream), n+40)]))
	}
	return "", ""
}

func max0(a int) int {
	if a < 0 {
		return 0
	}
	return a
}
func min2(a, b int) int {
	if a < b {
		return a
	}
	return b
}

func c04CheckOutbound(c c04Case, obs *c04Obs) (string, string) {
	if obs.notes != "" {
		return "outbound-torn", obs.notes
	}
	var ids []string
	seen := map[string]int{}
	for _, m := range obs.written {
		if !wellFormed(m) {
			return "outbound-interleaved-or-torn", show(m)
		}
		v, _ := get(m, "11")
		ids = append(ids, v)
		seen[v]++
	}
	for _, id := range []string{"a0", "a1", "b0", "b1", "r0", "r1"} {
		if seen[id] != 1 {
			return "outbound-lost-or-duplicated", fmt.Sprintf("%s appears %d times in %v", id, seen[id], ids)
		}
	}
	// hand-off order: the messages that went through Send appear in the order in which Send ran the handlers
	var viaSend []string
	for _, id := range ids {
		if id[0] != 'r' {
			viaSend = append(viaSend, id)
		}
	}
	if strings.Join(viaSend, ",") != strings.Join(obs.handoff, ",") {
		return "outbound-not-in-handoff-order", fmt.Sprintf("wire %v hand-off %v", viaSend, obs.handoff)
	}
	// per-sender order for SendRaw
	if idxOf(ids, "r0") > idxOf(ids, "r1") {
		return "outbound-reordered", fmt.Sprint(ids)
	}
	return "", ""
}

func idxOf(s []string, x string) int {
	for i, v := range s {
		if v == x {
			return i
		}
	}
	return -1
}

func c04Key(c c04Case) string {
	return fmt.Sprintf("%s/%d/%v/%v/%v/%s/%d/%v/%v/%d", c.Role, c.Buf, c.Seq, c.Seq2, c.Cuts, c.Mode, c.StallMs, c.OutFirst, c.OtherFirst, c.Trunc)
}

func c04ScenarioOf(c c04Case, delay bool, bound int) *schedScenario {
	var obs c04Obs
	p := map[string]any{"role": c.Role, "buf": c.Buf, "seq": c.Seq, "seq2": c.Seq2, "cuts": c.Cuts, "mode": c.Mode, "stall_ms": c.StallMs, "out_first": c.OutFirst, "other_first": c.OtherFirst, "trunc": c.Trunc}
	sc := &schedScenario{Name: "c04", Params: p, Strict: true, Delay: delay, Bound: bound, MaxSteps: 400000}
	sc.Body = func() {
		switch c.Mode {
		case "outbound":
			c04Outbound(c, &obs)
		case "outbound-partial":
			c04OutboundPartial(c, &obs)
		case "outbound-burst":
			c04OutboundBurst(c, &obs)
		case "inbound-stop":
			c04InboundStop(c, &obs)
		case "sequential":
			c04Sequential(c, &obs)
		default:
			c04Inbound(c, &obs)
		}
	}
	sc.Check = func(r *vsched.Result) (string, string) {
		switch c.Mode {
		case "outbound":
			return c04CheckOutbound(c, &obs)
		case "outbound-partial":
			return c04CheckPartial(c, &obs)
		case "outbound-burst":
			return c04CheckBurst(c, &obs)
		case "inbound-stop":
			return c04CheckStop(c, &obs)
		case "sequential":
			return c04CheckSequential(c, &obs)
		}
		return c04CheckInbound(c, &obs)
	}
	sc.Outcome = func() string {
		if c.Mode == "outbound-partial" || c.Mode == "outbound-burst" {
			return fmt.Sprintf("wire-bytes:%d", len(obs.stream))
		}
		if c.Mode == "outbound" {
			var ids []string
			for _, m := range obs.written {
				v, _ := get(m, "11")
				ids = append(ids, v)
			}
			return "wire:" + strings.Join(ids, ",")
		}
		return fmt.Sprintf("delivered:%d/%d", len(obs.seen[0]), len(obs.seen[1]))
	}
	return sc
}

func pints(p map[string]any, k string) []int {
	var out []int
	switch v := p[k].(type) {
	case []int:
		return v
	case []any:
		for _, x := range v {
			if f, ok := x.(float64); ok {
				out = append(out, int(f))
			}
		}
	}
	return out
}

func c04FromParams(name string, p map[string]any) *schedScenario {
	c := c04Case{Role: pstr(p, "role"), Buf: pint(p, "buf"), Seq: pints(p, "seq"), Seq2: pints(p, "seq2"), Cuts: pints(p, "cuts"), Mode: pstr(p, "mode"), StallMs: pint(p, "stall_ms"), OutFirst: pbool(p, "out_first"), OtherFirst: pbool(p, "other_first"), Trunc: pint(p, "trunc")}
	return c04ScenarioOf(c, true, 0)
}

func runC04(R *vlib.Out) {
	if *vlib.ReplayPath != "" {
		replaySched(R, c04FromParams)
		finishSched(R)
		return
	}
	thorough := *vlib.Tier == "thorough"
	// (a) partition enumeration on the default schedule
	unit := 0
	runDefault := func(c c04Case) bool {
		unit++
		if !vlib.Mine(unit) {
			return true
		}
		if unit%32 == 0 && vlib.Expired() {
			R.Cap("deadline")
			return false
		}
		sc := c04ScenarioOf(c, true, 0)
		R.Eval()
		r := vsched.Run(vsched.Options{StrictTime: true, MaxSteps: sc.MaxSteps}, sc.Body)
		sig, detail := "", ""
		switch {
		case r.Panic != "":
			sig, detail = "panic-in-task:"+r.PanicTask, r.Panic
		case r.Capped:
			sig, detail = "livelock-or-step-cap", fmt.Sprint(r.Steps)
		case r.MainBlocked:
			sig, detail = "call-never-returned", "the scenario's main task is blocked for good in "+r.MainOp+leakedStr(r.Leaked)
		default:
			sig, detail = sc.Check(&r)
		}
		R.Outcome("partition: " + sc.Outcome())
		R.ClassU("part/" + c04Key(c))
		R.Sample(4, c)
		if sig != "" {
			R.Violate(sig, c04Key(c)+": "+detail, schedReplay{"c04", sc.Params, nil, true, true})
		}
		return true
	}
	seqsFull := [][]int{{1, 2, 0}, {2, 1}}
	if thorough {
		seqsFull = append(seqsFull, []int{4, 1, 2}, []int{3, 0})
	}
	var seqsAll [][]int
	general := []int{0, 1, 2, 3, 4, 6, 7} // (5, the 8 KiB message, takes part in dedicated sequences only)
	for _, a := range general {
		seqsAll = append(seqsAll, []int{a})
		for _, b := range general {
			seqsAll = append(seqsAll, []int{a, b})
			if thorough || (a+b)%2 == 0 {
				for _, d := range general {
					if thorough || (a+b+d)%3 == 0 {
						seqsAll = append(seqsAll, []int{a, b, d})
					}
				}
			}
		}
	}
	for _, role := range []string{"ini", "acc"} {
		// the long message: alone, before and after a short one; whole, per message, byte by byte, cut around the 4096 boundaries
		for _, seq := range [][]int{{5}, {5, 0}, {1, 5}} {
			s, _ := streamOf(seq)
			cutsets := [][]int{nil, {-2}, {-1}}
			for _, b := range []int{4096, 8192} {
				for d := -2; d <= 2; d++ {
					if b+d < len(s) {
						cutsets = append(cutsets, []int{b + d}, []int{100, b + d})
					}
				}
			}
			for _, cuts := range cutsets {
				if !runDefault(c04Case{Role: role, Buf: 1, Seq: seq, Cuts: cuts, Mode: "inbound"}) {
					goto done
				}
			}
		}
		// outbound with a write that accepts part of a message and then times out
		for _, at := range []int{1, 2, 3} {
			for _, n := range []int{1, 25, 60} {
				if !runDefault(c04Case{Role: role, Buf: 1, Mode: "outbound-partial", Cuts: []int{at, n}}) {
					goto done
				}
			}
		}
		// bursts queued behind a momentarily slow peer: sizes around 1 KiB, 4 KiB, 16 KiB, 64 KiB thresholds
		for _, buf := range []int{1, 10, 100} {
			for _, sizes := range [][]int{
				{100, 40000, 40000, 300, 40000, 10}, {3000, 3000, 3000, 3000, 3000, 3000, 3000, 3000, 3000, 3000, 3000, 3000, 3000, 3000, 3000, 3000, 3000, 3000, 3000, 3000, 3000, 3000, 3000, 3000},
				{70000, 100, 70000, 100}, {100, 200, 300, 5000, 100, 17000, 100}, {1000, 1000, 66000, 10, 10, 66000, 10}, {100, 100, 100},
			} {
				if !runDefault(c04Case{Role: role, Buf: buf, Mode: "outbound-burst", Cuts: sizes}) {
					goto done
				}
			}
		}
		for _, buf := range []int{0, 1, 10} {
			for _, seq := range seqsAll {
				s, _ := streamOf(seq)
				if !runDefault(c04Case{Role: role, Buf: buf, Seq: seq, Cuts: []int{-1}, Mode: "inbound"}) ||
					!runDefault(c04Case{Role: role, Buf: buf, Seq: seq, Cuts: []int{-2}, Mode: "inbound"}) ||
					!runDefault(c04Case{Role: role, Buf: buf, Seq: seq, Cuts: nil, Mode: "inbound"}) {
					goto done
				}
				if buf == 1 || thorough {
					for c1 := 1; c1 < len(s); c1++ {
						if !runDefault(c04Case{Role: role, Buf: buf, Seq: seq, Cuts: []int{c1}, Mode: "inbound"}) {
							goto done
						}
						// the same cut with the peer pausing at it (3 s: beyond any poll interval)
						if len(seq) <= 2 || thorough {
							if !runDefault(c04Case{Role: role, Buf: buf, Seq: seq, Cuts: []int{c1}, Mode: "inbound", StallMs: 3000}) {
								goto done
							}
						}
					}
					if !runDefault(c04Case{Role: role, Buf: buf, Seq: seq, Cuts: []int{-1}, Mode: "inbound", StallMs: 300}) {
						goto done
					}
					// the stream ends inside the last message, at every position of it (one read, and byte by byte)
					if len(seq) <= 2 || thorough {
						last := len(c04Pool()[seq[len(seq)-1]])
						for tr := 1; tr < last; tr++ {
							if (tr > 12 && tr < last-12) && !thorough && tr%7 != 0 {
								continue // quick: every position near both ends of the message, every seventh in between
							}
							for _, cuts := range [][]int{nil, {-1}} {
								if !runDefault(c04Case{Role: role, Buf: buf, Seq: seq, Cuts: cuts, Mode: "inbound", Trunc: tr}) {
									goto done
								}
							}
						}
					}
					// this side has written something itself; the peer then pauses for longer than the write deadline
					// (5 s), between two messages and in the middle of one
					if len(seq) <= 2 || thorough {
						for _, cuts := range [][]int{{-2}, {len(s) / 2}} {
							if !runDefault(c04Case{Role: role, Buf: buf, Seq: seq, Cuts: cuts, Mode: "inbound", StallMs: 7000, OutFirst: true}) {
								goto done
							}
						}
					}
				}
			}
			if buf == 10 && !thorough {
				continue
			}
			for _, seq := range seqsFull {
				s, _ := streamOf(seq)
				for c1 := 1; c1 < len(s); c1++ {
					for c2 := c1 + 1; c2 < len(s); c2++ {
						if !runDefault(c04Case{Role: role, Buf: buf, Seq: seq, Cuts: []int{c1, c2}, Mode: "inbound"}) {
							goto done
						}
					}
				}
			}
		}
		// a message with one very long field between two ordinary ones
		for _, buf := range []int{0, 10} {
			for _, cuts := range [][]int{nil, {-2}, {30000}, {65536, 65537}} {
				if !runDefault(c04Case{Role: role, Buf: buf, Seq: []int{0, 9, 1}, Cuts: cuts, Mode: "inbound"}) {
					goto done
				}
			}
		}
		if role == "acc" {
			// one connection after another
			for _, buf := range []int{1, 10} {
				if !runDefault(c04Case{Role: role, Buf: buf, Mode: "sequential"}) {
					goto done
				}
			}
			// two simultaneous connections with different message sequences
			for _, buf := range []int{0, 10} {
				for _, pr := range [][2][]int{{{0, 1}, {2, 4}}, {{1, 2, 0}, {0}}, {{4}, {1, 1}}} {
					for _, cuts := range [][]int{nil, {-1}, {7, 40}} {
						if !runDefault(c04Case{Role: role, Buf: buf, Seq: pr[0], Seq2: pr[1], Cuts: cuts, Mode: "inbound"}) {
							goto done
						}
					}
				}
				// the other connection ends by an error of its own (a message the handler cannot dispatch) - before,
				// or while, this connection's messages arrive: they are delivered all the same
				for _, pr := range [][2][]int{{{0, 1}, {c04Poison}}, {{1, 2, 0}, {0, c04Poison, 1}}, {{4}, {c04Poison}}} {
					for _, cuts := range [][]int{nil, {-1}} {
						for _, first := range []bool{false, true} {
							if !runDefault(c04Case{Role: role, Buf: buf, Seq: pr[0], Seq2: pr[1], Cuts: cuts, Mode: "inbound", OtherFirst: first}) {
								goto done
							}
						}
					}
				}
			}
		}
	}
	{
		// (b)+(c) schedule exploration with delay bounding
		bound := 1
		if thorough {
			bound = 2
		}
		var scs []c04Case
		for _, role := range []string{"ini", "acc"} {
			for _, buf := range []int{0, 1} {
				s, _ := streamOf([]int{1, 2})
				scs = append(scs,
					c04Case{Role: role, Buf: buf, Seq: []int{1, 2}, Cuts: nil, Mode: "inbound"},
					c04Case{Role: role, Buf: buf, Seq: []int{1, 2}, Cuts: []int{len(c04Pool()[1]) - 5}, Mode: "inbound"},
					c04Case{Role: role, Buf: buf, Seq: []int{1, 2}, Cuts: []int{len(s) - 6, len(s) - 3}, Mode: "inbound"},
					c04Case{Role: role, Buf: buf, Mode: "outbound"})
			}
		}
		scs = append(scs, c04Case{Role: "acc", Buf: 0, Seq: []int{0, 1}, Seq2: []int{2}, Cuts: nil, Mode: "inbound"})
		// the stream ends inside the trailer of the last message: the end of the stream and whatever was read
		// before it race through the reader, the forwarding loop and the handler
		for _, role := range []string{"ini", "acc"} {
			for _, buf := range []int{0, 1} {
				for _, tr := range []int{1, 2, 4, 5} {
					scs = append(scs, c04Case{Role: role, Buf: buf, Seq: []int{0, 1}, Cuts: nil, Mode: "inbound", Trunc: tr})
				}
			}
		}
		// the handler is stopped while a callback runs and messages are queued behind it
		for _, role := range []string{"ini", "acc"} {
			for _, buf := range []int{1, 10} {
				for how := 0; how < 3; how++ {
					scs = append(scs, c04Case{Role: role, Buf: buf, Seq: []int{0, 1, 2, 3}, Cuts: []int{how}, Mode: "inbound-stop"})
				}
			}
		}
		for i, c := range scs {
			if vlib.Expired() {
				R.Cap("deadline")
				break
			}
			scenarioBudget = 4 * vlib.Remaining() / time.Duration(len(scs)-i) // most scenarios finish far below their share
			exploreSched(R, c04ScenarioOf(c, true, bound))
		}
	}
done:
	finishSched(R)
}

// ---- C18, connection part: end-of-message detection recognises the CheckSum tag only at a field
// boundary.  Messages whose values contain / end with "10=", whose tags end in 10, or that carry a
// field longer than the reader's buffer are delivered through the real Conn on the scripted socket
// in several read partitions; the delivered boundaries must be the sent boundaries.

func c18Pool() [][]byte {
	var out [][]byte
	seq := 1
	add := func(fields ...string) {
		out = append(out, appMsg(seq, fields...))
		seq++
	}
	for _, v := range []string{"10=", "10=abc", "x10=abc", "see 10=abc", "10=000", "=10=", "\x0210=123", "110=abc", "1\x0210=1"} {
		add("58=" + v)
		add("58="+v, "59=tail")
	}
	for _, tg := range []string{"110", "210", "1010", "100", "101"} {
		add(tg + "=abc")
		add(tg+"=100", "58=x")
		add(tg + "=10=")
	}
	add("58="+strings.Repeat("x", 4093)+"10=abc", "11=after")
	// look-alikes of the other framing fields: the start of a message, BodyLength, MsgType, MsgSeqNum
	// as text inside a value, and as the tail of a longer tag whose value continues like theirs
	for _, tv := range [][2]string{{"8", "FIX.4.4"}, {"8", "FIX"}, {"9", "61"}, {"35", "A"}, {"35", "D"}, {"34", "7"}} {
		t, v := tv[0], tv[1]
		add("58=" + t + "=" + v)
		add("58=see "+t+"="+v+" there", "59=tail")
		add("5"+t+"="+v+" gateway restarts", "59=tail") // e.g. 58=FIX gateway restarts: the bytes "8=FIX" with no field starting there
		add("44" + t + "=" + v)
		add("11"+t+"="+v, "58="+t+"="+v)
	}
	return out
}

// C18, session part: the session extracts MsgType and MsgSeqNum from the raw bytes of every inbound
// message (sequence tracking, SequenceReset exemption).  With the optional SequenceReset builder
// configured, a logged-on session receives application messages that carry look-alikes of those two
// fields - a longer tag ending in 35 / 34 with a plausible value, the text inside a value, at the
// end of a value - one or two per message; after each message the stored inbound number must be the
// message's own MsgSeqNum.
func runC18sess(R *vlib.Out) {
	decoys := []string{"135=4", "135=5", "1035=4", "58=see 35=4", "58=35=4", "58=x35=4", "435=4", "1034=77", "5034=1", "58=34=77", "58=was 34=77", "134=", "58=\x0234=5"}
	var sets [][]string
	for i, a := range decoys {
		sets = append(sets, []string{a})
		for _, b := range decoys[i+1:] {
			if a[:strings.IndexByte(a, '=')] != b[:strings.IndexByte(b, '=')] {
				sets = append(sets, []string{a, b})
			}
		}
	}
	unit := 0
	for _, role := range []string{"acc", "ini"} {
		for _, set := range sets {
			unit++
			if !vlib.Mine(unit) {
				continue
			}
			if vlib.Expired() {
				R.Cap("deadline")
				return
			}
			R.Eval()
			set, role := set, role
			sig, d, steps := execBody(func() (string, string) {
				w := newWorld(wcfg{Role: role, Buf: 10, HbMin: 5, HbMax: 30, HbInt: 30, SeqReset: true})
				w.logonOK(30)
				if !w.s.IsLogged() {
					return "setup:not-logged", ""
				}
				for k := 0; k < 2; k++ {
					m := w.msg("D", append([]string{"11=o" + strconv.Itoa(k)}, set...)...)
					want := seqOf(m)
					w.in(m)
					got, _ := w.st.GetCurrSeqNum(fixStorageID(true))
					if got != want {
						return "sess:inbound-number-not-recorded", fmt.Sprintf("after %s the stored inbound number is %d, the message carried %d", show(m), got, want)
					}
				}
				// a genuine SequenceReset is the one message whose number is not recorded
				m := w.msg("4", "36=50")
				before, _ := w.st.GetCurrSeqNum(fixStorageID(true))
				w.in(m)
				if got, _ := w.st.GetCurrSeqNum(fixStorageID(true)); got != before {
					return "sess:sequence-reset-number-recorded", fmt.Sprintf("stored inbound number %d -> %d on %s", before, got, show(m))
				}
				return "", ""
			})
			R.Transitions += int64(steps)
			key := fmt.Sprintf("sess/%s/%v", role, set)
			R.ClassU(key)
			R.State(key)
			R.Outcome("sess: numbers recorded")
			if sig != "" {
				R.Violate(sig, key+": "+d, map[string]any{"scenario": "c18sess", "role": role, "set": set})
			}
		}
	}
}

func runC18conn(R *vlib.Out) {
	if *vlib.ReplayPath != "" {
		var probe struct {
			Scenario string   `json:"scenario"`
			Role     string   `json:"role"`
			Set      []string `json:"set"`
		}
		vlib.LoadReplay(&probe)
		if probe.Scenario == "c18sess" {
			runC18sess(R) // (small: the whole part is re-run)
			return
		}
	}
	runC18sess(R)
	pool := c18Pool()
	unit := 0
	for _, role := range []string{"ini", "acc"} {
		for pi := range pool {
			for qi := range pool {
				if qi != (pi+1)%len(pool) && qi != (pi+7)%len(pool) {
					continue
				}
				stream := append(append([]byte{}, pool[pi]...), pool[qi]...)
				cutsets := [][]int{nil, {-1}, {-2}, {len(pool[pi]) - 5}, {len(pool[pi]) - 3, len(pool[pi]) + 9}}
				for _, cuts := range cutsets {
					unit++
					if !vlib.Mine(unit) {
						continue
					}
					if vlib.Expired() {
						R.Cap("deadline")
						return
					}
					R.Eval()
					var seen [][]byte
					served := false
					r := vsched.Run(vsched.Options{StrictTime: true, MaxSteps: 400000}, func() {
						cn := newConn(0)
						rec := func(m []byte) bool { seen = append(seen, append([]byte{}, m...)); return true }
						if role == "ini" {
							h := simplefixgo.NewInitiatorHandler(context.Background(), "35", 1)
							h.HandleIncoming(simplefixgo.AllMsgTypes, rec)
							cl := simplefixgo.NewInitiator(cn, h, 1, 5*time.Second)
							go func() { _ = cl.Serve(); served = true }()
						} else {
							l := &slistener{}
							a := simplefixgo.NewAcceptor(l, simplefixgo.NewAcceptorHandlerFactory("35", 1), 5*time.Second, func(h simplefixgo.AcceptorHandler) {
								h.HandleIncoming(simplefixgo.AllMsgTypes, rec)
							})
							go func() { _ = a.ListenAndServe(); served = true }()
							l.q = append(l.q, cn)
						}
						vsched.Settle()
						cn.feed(chunksOf(stream, [][]byte{pool[pi], pool[qi]}, cuts)...)
						vsched.Settle()
						cn.eof = true
						time.Sleep(5 * time.Second)
						vsched.Settle()
					})
					_ = served
					R.Transitions += int64(r.Steps)
					key := fmt.Sprintf("conn/%s/%d/%d/%v", role, pi, qi, cuts)
					R.ClassU(key)
					R.State(key)
					if r.Panic != "" {
						R.Violate("conn:panic-in-task:"+r.PanicTask, r.Panic, map[string]any{"role": role, "p": pi, "q": qi, "cuts": cuts})
						continue
					}
					ok := len(seen) == 2 && bytes.Equal(seen[0], pool[pi]) && bytes.Equal(seen[1], pool[qi])
					if !ok {
						var got []string
						for _, m := range seen {
							got = append(got, show(m))
						}
						R.Violate("conn:message-boundary-moved", fmt.Sprintf("%s: sent %q and %q, delivered %d: %q", key, show(pool[pi]), show(pool[qi]), len(seen), got),
							map[string]any{"role": role, "p": pi, "q": qi, "cuts": cuts})
					} else {
						R.Outcome("conn: boundaries kept")
						R.Sample(3, map[string]any{"role": role, "first": show(pool[pi]), "cuts": cuts})
					}
				}
			}
		}
	}
}

func pbool(p map[string]any, k string) bool {
	b, _ := p[k].(bool)
	return b
}
