package main

import (
	"fmt"
	"os"

	"vlib"
	"vsched"
)

func main() {
	R := vlib.Init()
	prop := *vlib.Prop
	switch prop {
	case "CONF":
		runConformance()
		return
	case "C06", "C07", "C16":
		vsched.TrackStates = false
		runProto(R, prop)
	case "C10":
		vsched.TrackStates = false
		runC10(R)
	case "C15":
		vsched.TrackStates = false
		runC15(R)
		finishSched(R)
	case "C19":
		vsched.TrackStates = false
		runC19(R)
	case "C08", "C09":
		vsched.TrackStates = false
		runGrid(R, prop)
	case "C04":
		runC04(R)
	case "C18":
		vsched.TrackStates = false
		runC18conn(R)
	case "C11":
		vsched.TrackStates = false
		runC11sess(R)
	case "C01":
		runC01conc(R)
	case "C20":
		runC20(R)
	case "C13":
		runC13(R)
	case "C05":
		runC05(R)
	case "C14":
		vsched.TrackStates = false
		runC14(R)
	default:
		fmt.Fprintln(os.Stderr, "vharness: unknown property", prop)
		os.Exit(3)
	}
	R.Transitions += 0
	R.CountN("scheduler_steps", vsched.TotalSteps)
	R.Finish()
}
