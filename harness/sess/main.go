package main

import (
	"fmt"
	"os"

	"vlib"
	"vsched"
)

func main() {
	R := vlib.Init()
	prop := *vlib.Prop
	switch prop {
	case "C06", "C07", "C16":
		vsched.TrackStates = false
		runProto(R, prop)
	default:
		fmt.Fprintln(os.Stderr, "vharness: unknown property", prop)
		os.Exit(3)
	}
	R.Transitions += 0
	R.CountN("scheduler_steps", vsched.TotalSteps)
	R.Finish()
}
