package main

// C05, timestamp part: "a sending time in FIX timestamp format taken at send time".  One message is sent at
// every instant of a small set chosen around the places where a hand-written formatter goes wrong: the first
// and last nanoseconds of a millisecond and of a second, and seconds that end a minute, an hour, a day, a
// month, February of a leap year and the year.  A fresh session per instant (the timers of a session that
// lived through a year of silence would have ended it).  Oracle: the field has exactly the form
// YYYYMMDD-HH:MM:SS.sss and differs from the virtual instant of the send by less than a millisecond.

import (
	"fmt"
	"time"

	fixgen "github.com/b2broker/simplefix-go/tests/fix44"
	"vlib"
	"vsched"
)

type c05tCase struct {
	Cfg   string `json:"cfg"` // "c05time"
	Role  string `json:"role"`
	Sec   int64  `json:"sec"`    // whole seconds since the epoch of virtual time (2024-01-01 00:00:00 UTC)
	SubNs int64  `json:"sub_ns"` // nanoseconds into that second
}

func c05tRun(c c05tCase) (string, string) {
	at := time.Duration(c.Sec)*time.Second + time.Duration(c.SubNs)
	if pre := at - 500*time.Millisecond; pre > 0 {
		vsched.SleepUntil(pre)
	}
	w := newWorld(wcfg{Role: c.Role, Buf: 10, HbMin: 5, HbMax: 60, HbInt: 30})
	w.logonOK(30)
	if !w.s.IsLogged() {
		return "setup:not-logged", ""
	}
	vsched.SleepUntil(at)
	w.take()
	if err := w.s.Send(fixgen.NewMarketDataRequest().SetMDReqID("t")); err != nil {
		return "send-refused", err.Error()
	}
	vsched.Settle()
	outs := w.take()
	if len(outs) != 1 {
		return "application-message-lost-or-duplicated", outsStr(outs)
	}
	o := outs[0]
	if !wellFormed(o.Msg) {
		return "malformed-outbound", show(o.Msg)
	}
	ts, _ := get(o.Msg, "52")
	tm, err := time.Parse("20060102-15:04:05.000", ts)
	if err != nil || len(ts) != 21 {
		return "sending-time-format", fmt.Sprintf("52=%q on a message sent at %s", ts, vsched.Epoch.Add(at).Format("2006-01-02 15:04:05.000000000"))
	}
	if d := tm.Sub(vsched.Epoch.Add(at)); d <= -time.Millisecond || d >= time.Millisecond {
		return "sending-time-not-send-time", fmt.Sprintf("52=%s on a message sent at %s", ts, vsched.Epoch.Add(at).Format("2006-01-02 15:04:05.000000000"))
	}
	return "", ""
}

func runC05time(R *vlib.Out) bool {
	day := int64(86400)
	secs := []int64{5, 59, 3599, day - 1, 31*day - 1, (31+28)*day - 1, (31+29)*day - 1, 366*day - 1, 366 * day, 9*3600 + 9*60 + 9}
	subs := []int64{0, 1, 499999, 500000, 999999, 1000000, 9000000, 99000000, 500000000, 999000000, 999400000, 999499999, 999500000, 999600000, 999999999}
	R.Bounds["sending_time_instants"] = len(secs) * len(subs)
	unit := 0
	for _, role := range []string{"acc", "ini"} {
		for _, sec := range secs {
			for _, sub := range subs {
				unit++
				if !vlib.Mine(unit) {
					continue
				}
				if vlib.Expired() {
					R.Cap("deadline")
					return false
				}
				c := c05tCase{Cfg: "c05time", Role: role, Sec: sec, SubNs: sub}
				R.Eval()
				sig, d, steps := execBody(func() (string, string) { return c05tRun(c) })
				R.Transitions += int64(steps)
				R.ClassU(fmt.Sprintf("c05time/%s/%d/%d", role, sec, sub))
				R.Outcome("timestamp part: ok")
				if sig != "" {
					R.Violate(sig, fmt.Sprintf("%+v: %s", c, d), c)
				}
			}
		}
	}
	return true
}
