package main

// C01, concurrency part — "every message the library serializes ... carries a correct BodyLength
// and CheckSum", when several are serialised at once.  Two sessions on two independent handlers
// (nothing shared but the library's package-level state) send messages of different lengths while
// two application tasks serialise message objects of their own with ToBytes; every schedule within
// the preemption bound (the points are the library's own synchronisation operations, among them
// sync.Pool Get / Put should the serialiser use one).  Oracle, from the bytes alone: every frame
// that reaches a wire and every slice ToBytes returned is well-formed (framing order, BodyLength,
// CheckSum) and carries the identifier of the message it was made from; the bytes returned to the
// application tasks still read the same when everything has finished.

import (
	"bytes"
	"fmt"
	"strings"

	fixgen "github.com/b2broker/simplefix-go/tests/fix44"
	"vlib"
	"vsched"
)

type c01cObs struct {
	wires   [][]outMsg
	direct  [][]byte // slices ToBytes handed to the application tasks
	copies  [][]byte // ... and what they read at that moment
	ids     []string
	sendErr int
}

func c01cScenario(name string, p map[string]any) *schedScenario {
	var obs c01cObs
	sc := &schedScenario{Name: "c01c", Params: p, Strict: true, Delay: true}
	sc.Body = func() {
		obs = c01cObs{}
		var w1, w2 *world
		vsched.Deterministic(func() {
			w1 = newWorld(wcfg{Role: "acc", Buf: 10, HbMin: 1, HbMax: 60, HbInt: 30})
			w1.logonOK(30)
			w2 = newWorld(wcfg{Role: "ini", Buf: 10, HbMin: 1, HbMax: 60, HbInt: 30})
			w2.logonOK(30)
			vsched.Settle()
		})
		w1.take()
		w2.take()
		done := make(chan int, 4)
		for i, w := range []*world{w1, w2} {
			i, w := i, w
			go func() {
				for m := 0; m < 2; m++ {
					id := fmt.Sprintf("s%d-%d-%s", i, m, strings.Repeat("x", 1+7*i+13*m)) // all lengths differ
					if err := w.s.Send(fixgen.NewMarketDataRequest().SetMDReqID(id)); err != nil {
						obs.sendErr++
					}
				}
				done <- i
			}()
		}
		for a := 0; a < 2; a++ {
			a := a
			go func() {
				for m := 0; m < 2; m++ {
					id := fmt.Sprintf("app%d-%d-%s", a, m, strings.Repeat("y", 3+5*a+11*m))
					msg := fixgen.NewMarketDataRequest().SetMDReqID(id)
					msg.HeaderBuilder().SetFieldMsgSeqNum(100 + m).SetFieldSenderCompID("APP").SetFieldTargetCompID("ELSE").SetFieldSendingTime("20240101-00:00:00.000")
					b, err := msg.ToBytes()
					if err != nil {
						obs.sendErr++
						continue
					}
					obs.direct = append(obs.direct, b)
					obs.copies = append(obs.copies, append([]byte{}, b...))
					obs.ids = append(obs.ids, id)
				}
				done <- 2 + a
			}()
		}
		for i := 0; i < 4; i++ {
			<-done
		}
		vsched.Settle()
		obs.wires = [][]outMsg{w1.take(), w2.take()}
	}
	sc.Check = func(r *vsched.Result) (string, string) {
		if obs.sendErr > 0 {
			return "conc:send-error", fmt.Sprint(obs.sendErr)
		}
		for i, outs := range obs.wires {
			n := 0
			for _, o := range outs {
				if !wellFormed(o.Msg) {
					return "conc:malformed-frame-on-the-wire", fmt.Sprintf("session %d: %s", i, show(o.Msg))
				}
				if mtype(o.Msg) != "V" {
					continue
				}
				id, _ := get(o.Msg, "262")
				if !strings.HasPrefix(id, fmt.Sprintf("s%d-%d-", i, n)) {
					return "conc:foreign-content-on-the-wire", fmt.Sprintf("session %d message %d: %s", i, n, show(o.Msg))
				}
				n++
			}
			if n != 2 {
				return "conc:message-lost", fmt.Sprintf("session %d: %d of 2 on the wire", i, n)
			}
		}
		for k, b := range obs.copies {
			if !wellFormed(b) {
				return "conc:malformed-bytes-from-ToBytes", fmt.Sprintf("%s: %s", obs.ids[k], show(b))
			}
			if id, _ := get(b, "262"); id != obs.ids[k] {
				return "conc:foreign-content-from-ToBytes", fmt.Sprintf("%s: %s", obs.ids[k], show(b))
			}
			if !bytes.Equal(b, obs.direct[k]) {
				return "conc:returned-bytes-changed-later", fmt.Sprintf("%s: returned %s, reads %s at the end", obs.ids[k], show(b), show(obs.direct[k]))
			}
		}
		if len(obs.copies) != 4 {
			return "conc:message-lost", fmt.Sprintf("%d of 4 direct serialisations", len(obs.copies))
		}
		return "", ""
	}
	sc.Outcome = func() string {
		var s []string
		for _, outs := range obs.wires {
			for _, o := range outs {
				id, _ := get(o.Msg, "262")
				s = append(s, id[:strings.LastIndex(id+"-", "-")])
			}
		}
		return strings.Join(s, ",")
	}
	return sc
}

func runC01conc(R *vlib.Out) {
	if *vlib.ReplayPath != "" {
		replaySched(R, c01cScenario)
		finishSched(R)
		return
	}
	bound := 1
	if *vlib.Tier == "thorough" {
		bound = 2
	}
	sc := c01cScenario("c01c", map[string]any{})
	sc.Bound = bound
	exploreSched(R, sc)
	finishSched(R)
}
