module astdiff

go 1.21
