// astdiff compares two Go package directories declaration for declaration, insensitive to the
// order of declarations and to the files they live in: every top-level declaration (functions
// with their receiver, types, individual const/var specs) is printed with go/printer and the two
// multisets are compared.  Exit 1 and a report when they differ.
package main

import (
	"bytes"
	"fmt"
	"go/ast"
	"go/parser"
	"go/printer"
	"go/token"
	"os"
	"sort"
)

func decls(dir string) map[string]int {
	fset := token.NewFileSet()
	pkgs, err := parser.ParseDir(fset, dir, nil, 0)
	if err != nil {
		fmt.Println("parse", dir, err)
		os.Exit(2)
	}
	out := map[string]int{}
	pr := func(n interface{}) string {
		var b bytes.Buffer
		_ = printer.Fprint(&b, token.NewFileSet(), n)
		return b.String()
	}
	for _, p := range pkgs {
		for _, f := range p.Files {
			for _, d := range f.Decls {
				switch x := d.(type) {
				case *ast.FuncDecl:
					x.Doc = nil
					out["func "+pr(x)]++
				case *ast.GenDecl:
					if x.Tok == token.IMPORT {
						continue
					}
					for _, s := range x.Specs {
						switch sp := s.(type) {
						case *ast.ValueSpec:
							sp.Doc, sp.Comment = nil, nil
						case *ast.TypeSpec:
							sp.Doc, sp.Comment = nil, nil
						}
						out[x.Tok.String()+" "+pr(s)]++
					}
				}
			}
		}
	}
	return out
}

func main() {
	a, b := decls(os.Args[1]), decls(os.Args[2])
	var diff []string
	for k, n := range a {
		if b[k] != n {
			diff = append(diff, fmt.Sprintf("only/more in %s (%d vs %d): %.200s", os.Args[1], n, b[k], k))
		}
	}
	for k, n := range b {
		if a[k] != n {
			diff = append(diff, fmt.Sprintf("only/more in %s (%d vs %d): %.200s", os.Args[2], n, a[k], k))
		}
	}
	sort.Strings(diff)
	if len(diff) > 0 {
		fmt.Printf("%d differing declarations\n", len(diff))
		for i, d := range diff {
			if i < 12 {
				fmt.Println(d)
			}
		}
		os.Exit(1)
	}
	fmt.Printf("identical: %d declarations\n", len(a))
}
