// twice: one generator.Generator object used for two consecutive Execute calls into two directories
// (the library API, as an application embedding the generator would use it).  Both calls must
// succeed and write the same files.  usage: twice <schema.xml> <types.xml> <dirA> <dirB>; the two
// directories must have the same last element (it is the package name).
// With two more arguments <types2.xml> <dirC>: a second Generator is then built on the SAME parsed schema with the
// other type mapping and executed into dirC (the caller compares dirC with a fresh generation for that mapping):
// a generator must not leave anything of its own run behind in the schema object it was given.
package main

import (
	"bytes"
	"fmt"
	"os"
	"path/filepath"
	"sort"

	"github.com/b2broker/simplefix-go/generator"
	"github.com/b2broker/simplefix-go/utils"
)

func tree(d string) (map[string][]byte, []string) {
	m := map[string][]byte{}
	var names []string
	es, _ := os.ReadDir(d)
	for _, e := range es {
		b, _ := os.ReadFile(filepath.Join(d, e.Name()))
		m[e.Name()] = b
		names = append(names, e.Name())
	}
	sort.Strings(names)
	return m, names
}

func main() {
	doc := &generator.Doc{}
	if err := utils.ParseXML(os.Args[1], doc); err != nil {
		fmt.Println("HARNESS parse schema:", err)
		os.Exit(3)
	}
	config := &generator.Config{}
	if err := utils.ParseXML(os.Args[2], config); err != nil {
		fmt.Println("HARNESS parse types:", err)
		os.Exit(3)
	}
	a, b := os.Args[3], os.Args[4]
	g := generator.NewGenerator(doc, config, filepath.Base(a))
	for i, d := range []string{a, b} {
		if err := os.MkdirAll(d, 0o755); err != nil {
			fmt.Println("HARNESS mkdir:", err)
			os.Exit(3)
		}
		if err := g.Execute(d); err != nil {
			fmt.Printf("FAIL execute-%d: %v\n", i+1, err)
			os.Exit(1)
		}
	}
	ma, na := tree(a)
	mb, nb := tree(b)
	if fmt.Sprint(na) != fmt.Sprint(nb) {
		fmt.Printf("FAIL file sets differ: %d vs %d files\n", len(na), len(nb))
		os.Exit(1)
	}
	for _, n := range na {
		if !bytes.Equal(ma[n], mb[n]) {
			fmt.Printf("FAIL %s differs between the first and the second Execute\n", n)
			os.Exit(1)
		}
	}
	if len(os.Args) >= 7 {
		config2 := &generator.Config{}
		if err := utils.ParseXML(os.Args[5], config2); err != nil {
			fmt.Println("HARNESS parse types2:", err)
			os.Exit(3)
		}
		c := os.Args[6]
		if err := os.MkdirAll(c, 0o755); err != nil {
			fmt.Println("HARNESS mkdir:", err)
			os.Exit(3)
		}
		if err := generator.NewGenerator(doc, config2, filepath.Base(c)).Execute(c); err != nil {
			fmt.Printf("FAIL execute with the second mapping on the shared schema: %v\n", err)
			os.Exit(4)
		}
	}
	fmt.Println("OK", len(na), "files")
}
