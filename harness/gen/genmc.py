#!/usr/bin/env python3
"""genmc — E3: bounded-exhaustive schema enumeration for the code generator (property C12).

A worker of the vcheck protocol.  For every schema of the enumerated family (the shipped schemas,
a compact schema with a nested group and a component, and every single-site mutation of them
under a fixed operator set) it builds cmd/fixgen from the working tree, generates into several
output-directory forms, twice, compiles the emitted package against the working tree and runs a
driver that is derived from the XML by THIS file (own XML reader, own type mapping read from the
types file, own naming rules) — never from the generator's code.

Oracle per schema: accept/reject as the statement says; byte-identical second run; identical file
sets and `package p` for relative / nested / absolute output directories; the package compiles;
every MsgType/Field constant, member order, Go types of setters/getters/constructors (compile
time), one-setter-one-field on the wire, getter-returns-what-was-set, required members = arguments
of the populating constructor, group AddEntry/Entries; the shipped tests/fix44 package equals the
regenerated one declaration for declaration.
"""
import sys, os, json, subprocess, shutil, tempfile, time, copy, hashlib, re, argparse
import xml.etree.ElementTree as ET

ENV = dict(os.environ, GOFLAGS="-mod=mod", GOPROXY="off", GOSUMDB="off", GOTOOLCHAIN="local")
T0 = time.time()

EXCLUDED = {"BeginString", "BodyLength", "MsgType", "CheckSum"}
# fields whose names and Go types are fixed by the library's session/messages builder interfaces
PIPELINE = {"SenderCompID", "TargetCompID", "MsgSeqNum", "SendingTime", "HeartBtInt", "EncryptMethod", "Password", "Username",
            "ResetSeqNumFlag", "TestReqID", "BeginSeqNo", "EndSeqNo", "NewSeqNo", "GapFillFlag", "SessionRejectReason", "RefSeqNum", "RefTagID"}
GO_TYPE = {"Float": "float64", "Int": "int", "Raw": "[]byte", "Bool": "bool", "String": "string", "Time": "time.Time"}


def sh(cmd, cwd=None, timeout=600):
    p = subprocess.run(cmd, cwd=cwd, env=ENV, stdout=subprocess.PIPE, stderr=subprocess.STDOUT, text=True, timeout=timeout)
    return p.returncode, p.stdout


# ------------------------------------------------------------------ schema model (own XML reader)

class Schema:
    def __init__(self, root, types_root):
        self.root = root
        self.types_root = types_root

    def clone(self):
        return Schema(copy.deepcopy(self.root), copy.deepcopy(self.types_root))

    def xml(self):
        return ET.tostring(self.root, encoding="unicode")

    def types_xml(self):
        return ET.tostring(self.types_root, encoding="unicode")

    def cast(self):
        m = {}
        for t in self.types_root.iter("type"):
            m[t.get("name")] = t.get("cast")
        return m

    def fields(self):
        return {f.get("name"): f for f in self.root.find("fields").findall("field")}

    def gotype(self, fname):
        """Go type and fix type of a field by the schema + type mapping (enums are strings)."""
        f = self.fields()[fname]
        cast = self.cast().get(f.get("type"))
        if f.findall("value") and cast != "Bool":
            return "string", "String"
        return GO_TYPE[cast], cast

    def number(self, fname):
        return self.fields()[fname].get("number")

    def components(self):
        c = self.root.find("components")
        return {x.get("name"): x for x in (c.findall("component") if c is not None else [])}

    def messages(self):
        return self.root.find("messages").findall("message")


def group_conflicts(sch):
    """names of groups that are defined with different member lists in different places (the
    generator keeps one definition per group name)"""
    defs = {}
    for g in sch.root.iter("group"):
        if not members(g):
            continue
        sig = tuple((m.tag, m.get("name")) for m in members(g))
        defs.setdefault(g.get("name"), set()).add(sig)

    def subseq(a, b):
        it = iter(b)
        return all(x in it for x in a)
    out = set()
    for n, d in defs.items():
        # usable with one shared type iff one definition contains all the others as subsequences
        if len(d) > 1 and not any(all(subseq(o, sup) for o in d) for sup in d):
            out.add(n)
    return out


def uses_groups(sch, el, names, depth=0):
    for m in el.iter():
        if m.tag == "group" and m.get("name") in names:
            return True
        if m.tag == "component" and depth < 6 and m.get("name") in sch.components() and m is not el:
            if uses_groups(sch, sch.components()[m.get("name")], names, depth + 1):
                return True
    return False


def grp_type(name):
    return name.replace("No", "", 1) + "Grp"


def entry_type(name):
    return name.replace("No", "", 1) + "Entry"


class Lit:
    """Typed literal generator: distinct values per use so that cross-wired accessors show."""
    def __init__(self):
        self.k = 0

    def make(self, gotype):
        self.k += 1
        k = self.k
        if gotype == "string":
            return '"s%d"' % k, "s%d" % k, 'string'
        if gotype == "int":
            return str(100 + k), str(100 + k), 'int'
        if gotype == "float64":
            return "%d.5" % k, "%d.5" % k, 'float'
        if gotype == "bool":
            return "true", "Y", 'bool'
        if gotype == "[]byte":
            return '[]byte("r%d")' % k, "r%d" % k, 'raw'
        if gotype == "time.Time":
            return "time.Date(2024, 1, 2, 3, 4, %d, 6000000, time.UTC)" % (k % 60), "20240102-03:04:%02d.006" % (k % 60), 'time'
        raise ValueError(gotype)


def members(el):
    return [m for m in list(el) if m.tag in ("field", "group", "component")]


def eq_expr(kind, a, b):
    if kind == "raw":
        return "bytes.Equal(%s, %s)" % (a, b)
    if kind == "time":
        return "%s.Equal(%s)" % (a, b)
    return "%s == %s" % (a, b)


class Driver:
    """Emits Go source of the XML-derived driver."""
    def __init__(self, sch, pkg="p"):
        self.skipped = []
        self.s = sch
        self.pkg = pkg
        self.lit = Lit()
        self.out = []
        self.nchecks = 0

    def w(self, line):
        self.out.append(line)

    # populate `recv` (a Go expression of a message/component/entry wrapper) with every member set,
    # returning the expected flattened wire fields
    def fill_all(self, recv, el, depth=0, skip_excluded=False):
        exp = []
        for m in members(el):
            name = m.get("name")
            if skip_excluded and name in EXCLUDED:
                continue
            if m.tag == "field":
                gt, _ = self.s.gotype(name)
                lit, text, kind = self.lit.make(gt)
                self.w("%s.Set%s(%s)" % (recv, name, lit))
                exp.append((self.s.number(name), text))
            elif m.tag == "component":
                if depth > 4:
                    continue
                comp = self.s.components()[name]
                exp += self.fill_all("%s.%s()" % (recv, name), comp, depth + 1)
            elif m.tag == "group":
                if depth > 4 or not members(m):
                    continue
                v = "e%d" % self.lit.k
                self.lit.k += 1
                self.w("%s := p.New%s()" % (v, entry_type(name)))
                sub = self.fill_all(v, m, depth + 1)
                self.w("%s.%s().AddEntry(%s)" % (recv, grp_type(name), v))
                exp.append((self.s.number(name), "1"))
                exp += sub
        return exp

    def ctor_args(self, el, skip_excluded=False, depth=0):
        """Typed argument list for the populating constructor: the required members, in order."""
        args, exp, pre = [], [], []
        for m in members(el):
            name = m.get("name")
            if skip_excluded and name in EXCLUDED:
                continue
            if m.get("required") != "Y":
                continue
            if m.tag == "field":
                gt, _ = self.s.gotype(name)
                lit, text, kind = self.lit.make(gt)
                args.append(lit)
                exp.append((self.s.number(name), text))
            elif m.tag == "component":
                comp = self.s.components()[name]
                a2, e2, p2 = self.ctor_args(comp, depth=depth + 1)
                pre += p2
                args.append("p.New%s(%s)" % (name, ", ".join(a2)))
                exp += e2
            elif m.tag == "group":
                args.append("p.New%s()" % grp_type(name))
        return args, exp, pre

    def expect(self, what, msgexpr, exp):
        self.nchecks += 1
        pairs = ", ".join('{"%s", %s}' % (n, json.dumps(t)) for n, t in exp)
        self.w('wire(%s, %s, [][2]string{%s})' % (json.dumps(what), msgexpr, pairs))

    def build(self):
        s = self.s
        self.w("package main")
        self.w('import (\n"bytes"\n"fmt"\n"os"\n"strings"\n"time"\n p "genmod/%s"\n"github.com/b2broker/simplefix-go/fix"\n)' % self.pkg)
        self.w("var _ = bytes.Equal\nvar _ = time.Now\nvar _ fix.Item\nvar fails int")
        self.w('''
type ser interface{ ToBytes() ([]byte, error) }
func chk(ok bool, what string) { if !ok { fails++; fmt.Println("FAIL " + what) } }
func wire(what string, m ser, exp [][2]string) {
	b, err := m.ToBytes()
	if err != nil { fails++; fmt.Println("FAIL "+what+": ToBytes: "+err.Error()); return }
	segs := strings.Split(strings.TrimSuffix(string(b), "\\x01"), "\\x01")
	var got [][2]string
	for _, sg := range segs {
		i := strings.Index(sg, "=")
		if i < 0 { got = append(got, [2]string{"", sg}); continue }
		got = append(got, [2]string{sg[:i], sg[i+1:]})
	}
	if len(got) < 4 { fails++; fmt.Println("FAIL "+what+": short message"); return }
	got = got[3 : len(got)-1]
	if fmt.Sprint(got) != fmt.Sprint(exp) { fails++; fmt.Printf("FAIL %s: wire %v want %v\\n", what, got, exp) }
}
func main() {''')
        # constants
        for name, f in s.fields().items():
            self.w('chk(p.Field%s == %s, "const Field%s")' % (name, json.dumps(f.get("number")), name))
            self.nchecks += 1
        # header / trailer constructors (required members = arguments, in order) — compile-time typed
        hargs, hexp, _ = self.ctor_args(s.root.find("header"), skip_excluded=True)
        self.w("_ = p.NewHeader(%s)" % ", ".join(hargs))
        targs, _, _ = self.ctor_args(s.root.find("trailer"), skip_excluded=True)
        self.w("_ = p.NewTrailer(%s)" % ", ".join(targs))
        conflicts = group_conflicts(s)
        self.skipped = []
        for cname, comp in s.components().items():
            a, e, _ = self.ctor_args(comp)
            self.w("_ = p.New%s(%s)" % (cname, ", ".join(a)))
        for msg in s.messages():
            mn = msg.get("name")
            if conflicts and uses_groups(s, msg, conflicts):
                self.skipped.append(mn)
                self.w('chk(p.MsgType%s == %s, "const MsgType%s")' % (mn, json.dumps(msg.get("msgtype")), mn))
                continue
            self.w("{")
            self.w('chk(p.MsgType%s == %s, "const MsgType%s")' % (mn, json.dumps(msg.get("msgtype")), mn))
            self.w('chk(p.New%s().MsgType() == %s, "MsgType() of %s")' % (mn, json.dumps(msg.get("msgtype")), mn))
            self.nchecks += 2
            # nothing set: nothing on the wire
            self.expect("%s: empty" % mn, "p.New%s()" % mn, [])
            # one setter, one field; getter returns it
            for m in members(msg):
                name = m.get("name")
                if m.tag == "field":
                    gt, _ = s.gotype(name)
                    lit, text, kind = self.lit.make(gt)
                    self.w("{ m := p.New%s(); m.Set%s(%s)" % (mn, name, lit))
                    self.expect("%s.Set%s" % (mn, name), "m", [(s.number(name), text)])
                    self.w('chk(%s, "%s.%s() returns what was set") }' % (eq_expr(kind, "m.%s()" % name, lit), mn, name))
                    self.nchecks += 1
                elif m.tag == "group" and members(m):
                    first = members(m)[0]
                    if first.tag == "field":
                        gt, _ = s.gotype(first.get("name"))
                        lit, text, kind = self.lit.make(gt)
                        self.w("{ m := p.New%s(); g := p.New%s(); e := p.New%s(); e.Set%s(%s); g.AddEntry(e); g.AddEntry(p.New%s().Set%s(%s)); m.Set%s(g)" % (
                            mn, grp_type(name), entry_type(name), first.get("name"), lit, entry_type(name), first.get("name"), lit, grp_type(name)))
                        self.expect("%s group %s" % (mn, name), "m", [(s.number(name), "2"), (s.number(first.get("name")), text), (s.number(first.get("name")), text)])
                        self.w('chk(len(m.%s().Entries()) == 2 && %s, "%s.%s().Entries()") }' % (
                            grp_type(name), eq_expr(kind, "m.%s().Entries()[1].%s()" % (grp_type(name), first.get("name")), lit), mn, grp_type(name)))
                        self.nchecks += 1
            # everything set: schema order on the wire (header first)
            self.w("{ m := p.New%s()" % mn)
            hexp2 = self.fill_all("m.Header()", s.root.find("header"), skip_excluded=True)
            bexp = self.fill_all("m", msg)
            self.expect("%s: all members, schema order" % mn, "m", hexp2 + bexp)
            self.w("}")
            # populating constructor: required members are its arguments, in order
            a, e, _ = self.ctor_args(msg)
            self.w("{ m := p.Create%s(%s)" % (mn, ", ".join(a)))
            self.expect("Create%s(required...)" % mn, "m", e)
            self.w("}")
            self.w("}")
        self.w('if fails > 0 { fmt.Println("driver: ", fails, "failures"); os.Exit(1) }\nfmt.Println("driver ok")\n}')
        return "\n".join(self.out)


# ------------------------------------------------------------------ schema families

COMPACT = """<fix major='4' type='FIX' servicepack='0' minor='4'>
 <header>
  <field name='BeginString' required='Y'/><field name='BodyLength' required='Y'/><field name='MsgType' required='Y'/>
  <field name='SenderCompID' required='Y'/><field name='TargetCompID' required='Y'/><field name='MsgSeqNum' required='Y'/>
  <field name='PossDupFlag' required='N'/><field name='SendingTime' required='Y'/>
 </header>
 <messages>
  <message name='Alpha' msgcat='app' msgtype='UA'>
   <field name='ClOrdID' required='Y'/><field name='Price' required='N'/><field name='OrderQty' required='Y'/>
   <component name='Instrument' required='Y'/>
   <group name='NoLegs' required='N'>
     <field name='LegSymbol' required='Y'/><field name='LegQty' required='N'/>
     <group name='NoNested' required='N'><field name='NestedID' required='N'/><field name='NestedFlag' required='N'/>
       <group name='NoDeep' required='N'><field name='DeepID' required='Y'/><field name='DeepQty' required='N'/>
         <group name='NoDeeper' required='N'><field name='DeeperID' required='N'/></group>
       </group>
     </group>
   </group>
   <field name='Side' required='N'/><field name='TransactTime' required='N'/>
  </message>
  <message name='Beta' msgcat='app' msgtype='UB'>
   <field name='Text' required='N'/><field name='RawBlob' required='Y'/><field name='Urgent' required='N'/>
  </message>
  <message name='Gamma' msgcat='app' msgtype='UC'>
   <field name='RefID' required='Y'/><field name='Price' required='Y'/>
  </message>
 </messages>
 <trailer><field name='SignatureLength' required='N'/><field name='Signature' required='N'/><field name='CheckSum' required='Y'/></trailer>
 <components>
  <component name='Instrument'>
   <field name='Symbol' required='Y'/><field name='SecurityID' required='N'/>
   <group name='NoAltIDs' required='N'><field name='AltID' required='N'/><field name='AltSource' required='N'/></group>
  </component>
 </components>
 <fields>
  <field number='8' name='BeginString' type='STRING'/><field number='9' name='BodyLength' type='LENGTH'/><field number='35' name='MsgType' type='STRING'/>
  <field number='10' name='CheckSum' type='STRING'/><field number='49' name='SenderCompID' type='STRING'/><field number='56' name='TargetCompID' type='STRING'/>
  <field number='34' name='MsgSeqNum' type='SEQNUM'/><field number='43' name='PossDupFlag' type='BOOLEAN'/><field number='52' name='SendingTime' type='STRING'/>
  <field number='93' name='SignatureLength' type='LENGTH'/><field number='89' name='Signature' type='DATA'/>
  <field number='11' name='ClOrdID' type='STRING'/><field number='44' name='Price' type='PRICE'/><field number='38' name='OrderQty' type='QTY'/>
  <field number='555' name='NoLegs' type='NUMINGROUP'/><field number='600' name='LegSymbol' type='STRING'/><field number='687' name='LegQty' type='QTY'/>
  <field number='539' name='NoNested' type='NUMINGROUP'/><field number='1201' name='NoDeep' type='NUMINGROUP'/><field number='1202' name='DeepID' type='STRING'/><field number='1203' name='DeepQty' type='QTY'/>
  <field number='1204' name='NoDeeper' type='NUMINGROUP'/><field number='1205' name='DeeperID' type='INT'/><field number='524' name='NestedID' type='STRING'/><field number='525' name='NestedFlag' type='BOOLEAN'/>
  <field number='54' name='Side' type='CHAR'><value enum='1' description='BUY'/><value enum='2' description='SELL'/></field>
  <field number='60' name='TransactTime' type='UTCTIMESTAMP'/>
  <field number='58' name='Text' type='STRING'/><field number='96' name='RawBlob' type='RAWDATA'/><field number='61' name='Urgent' type='BOOLEAN'/>
  <field number='1080' name='RefID' type='INT'/>
  <field number='55' name='Symbol' type='STRING'/><field number='48' name='SecurityID' type='STRING'/>
  <field number='454' name='NoAltIDs' type='NUMINGROUP'/><field number='455' name='AltID' type='STRING'/><field number='456' name='AltSource' type='INT'/>
 </fields>
</fix>"""

COMPACT_TYPES = """<config name="c"><types>
 <type name="STRING" cast="String"/><type name="CHAR" cast="String"/><type name="DATA" cast="String"/><type name="RAWDATA" cast="Raw"/>
 <type name="BOOLEAN" cast="Bool"/><type name="INT" cast="Int"/><type name="SEQNUM" cast="Int"/><type name="LENGTH" cast="Int"/><type name="NUMINGROUP" cast="Int"/>
 <type name="PRICE" cast="Float"/><type name="QTY" cast="Float"/><type name="UTCTIMESTAMP" cast="Time"/>
</types></config>"""


class Variant:
    def __init__(self, name, sch, expect_reject=False, big=False, may_reject=False):
        self.name, self.sch, self.expect_reject, self.big = name, sch, expect_reject, big
        # may_reject: the generator is free to refuse this schema (a session-pipeline or framing field is missing);
        # if it accepts it, everything the property says about accepted schemas applies
        self.may_reject = may_reject


def next_num(sch):
    return str(max(int(f.get("number")) for f in sch.fields().values()) + 1)


def mutations(base, label, sites="all"):
    """Every single-site mutation of the schema under the fixed operator set."""
    out = []
    b = base

    def containers(s):
        """mutation sites: each message, each component, and each group NAME (a mutation of a group is
        applied to every definition of that name, since the generator keeps one definition per name)"""
        cs = [("message:" + m.get("name"), [m]) for m in s.messages()]
        cs += [("header", [s.root.find("header")]), ("trailer", [s.root.find("trailer")])]
        cs += [("component:" + n, [c]) for n, c in s.components().items()]
        byname = {}
        for g in s.root.iter("group"):
            if members(g):
                byname.setdefault(g.get("name"), []).append(g)
        for n, gs in byname.items():
            if len(set(tuple((m.tag, m.get("name")) for m in members(g)) for g in gs)) == 1:
                cs.append(("group:" + n, gs))
            # (groups whose definitions differ are left unmutated: a single-site mutation of them leaves the
            # supported domain "one definition per group name")
        return cs

    # remove member / swap adjacent / toggle required — at every member site
    for ci, (cname, conts) in enumerate(containers(b)):
        ms = members(conts[0])
        for i, m in enumerate(ms):
            if sites != "all" and (ci + i) % sites != 0:
                continue
            tag = "%s[%d:%s]" % (cname, i, m.get("name"))
            if len(ms) > 1 and m.get("name") not in PIPELINE and m.get("name") not in EXCLUDED:  # a pipeline message must keep its pipeline fields, header/trailer their framing fields
                s = b.clone()
                for c2 in dict(containers(s))[cname]:
                    c2.remove(members(c2)[i])
                out.append(Variant("%s/remove %s" % (label, tag), s))
            elif len(ms) > 1 or cname == "trailer":
                # a field the session pipeline or the framing needs: refusing the schema is fine, accepting it
                # and emitting a package that does not compile is not
                s = b.clone()
                for c2 in dict(containers(s))[cname]:
                    c2.remove(members(c2)[i])
                out.append(Variant("%s/remove-pipeline %s" % (label, tag), s, may_reject=True))
            if i + 1 < len(ms):
                s = b.clone()
                for c2 in dict(containers(s))[cname]:
                    kids = list(c2)
                    a, bb = members(c2)[i], members(c2)[i + 1]
                    ia, ib = kids.index(a), kids.index(bb)
                    c2.remove(a)
                    c2.remove(bb)
                    c2.insert(ia, bb)
                    c2.insert(ib, a)
                out.append(Variant("%s/swap %s" % (label, tag), s))
            if m.get("name") in EXCLUDED:
                continue
            s = b.clone()
            for c2 in dict(containers(s))[cname]:
                mm = members(c2)[i]
                mm.set("required", "N" if mm.get("required") == "Y" else "Y")
            out.append(Variant("%s/toggle-required %s" % (label, tag), s))
    # a group / component / message emptied of all its members: the generator may refuse it (it does, for groups
    # and components); if it accepts it, the statement applies
    for ci, (cname, conts) in enumerate(containers(b)):
        if not cname.startswith("group:") or (sites != "all" and ci % sites != 0):
            continue  # (groups only: the generator refuses an empty group; what an empty component or message means is not stated)
        if any(m.get("name") in PIPELINE for m in members(conts[0])):
            continue
        s = b.clone()
        for c2 in dict(containers(s))[cname]:
            for m in members(c2):
                c2.remove(m)
        out.append(Variant("%s/empty %s" % (label, cname), s, may_reject=True))
    # rename a field consistently
    for fi, fname in enumerate(list(b.fields())):
        if fname in EXCLUDED or fname in PIPELINE or fname.startswith("No"):
            continue
        if sites != "all" and fi % (sites * 5) != 0:
            continue
        s = b.clone()
        new = fname + "Renamed"
        for el in s.root.iter():
            if el.tag == "field" and el.get("name") == fname:
                el.set("name", new)
        out.append(Variant("%s/rename-field %s" % (label, fname), s))
    # add a field of each castable type to the first message
    for ti, t in enumerate(sorted(set(b.cast().keys()))):
        if sites != "all" and ti % 3 != 0:
            continue
        s = b.clone()
        n = next_num(s)
        ET.SubElement(s.root.find("fields"), "field", {"number": n, "name": "Added%d" % ti, "type": t})
        ET.SubElement(s.messages()[0], "field", {"name": "Added%d" % ti, "required": "Y" if ti % 2 else "N"})
        out.append(Variant("%s/add-field type=%s" % (label, t), s))
    # add a message / a component reference / a group
    s = b.clone()
    n = next_num(s)
    ET.SubElement(s.root.find("fields"), "field", {"number": n, "name": "NewMsgField", "type": "STRING"})
    nm = ET.SubElement(s.root.find("messages"), "message", {"name": "Delta", "msgcat": "app", "msgtype": "UZ"})
    ET.SubElement(nm, "field", {"name": "NewMsgField", "required": "Y"})
    out.append(Variant("%s/add-message" % label, s))
    if b.components():
        s = b.clone()
        cn = list(s.components())[0]
        tgt = s.messages()[-1]
        if not any(m.get("name") == cn for m in members(tgt)):
            ET.SubElement(tgt, "component", {"name": cn, "required": "N"})
            out.append(Variant("%s/add-component-ref" % label, s))
    s = b.clone()
    n = next_num(s)
    ET.SubElement(s.root.find("fields"), "field", {"number": n, "name": "NoAdded", "type": "NUMINGROUP"})
    ET.SubElement(s.root.find("fields"), "field", {"number": str(int(n) + 1), "name": "AddedInGrp", "type": "STRING"})
    g = ET.SubElement(s.messages()[-1], "group", {"name": "NoAdded", "required": "N"})
    ET.SubElement(g, "field", {"name": "AddedInGrp", "required": "N"})
    out.append(Variant("%s/add-group" % label, s))
    # ... and one whose name contains the prefix "No" twice (only the leading one is dropped in the type name)
    s = b.clone()
    n = next_num(s)
    ET.SubElement(s.root.find("fields"), "field", {"number": n, "name": "NoNotedItems", "type": "NUMINGROUP"})
    ET.SubElement(s.root.find("fields"), "field", {"number": str(int(n) + 1), "name": "NotedItemID", "type": "STRING"})
    g = ET.SubElement(s.messages()[-1], "group", {"name": "NoNotedItems", "required": "N"})
    ET.SubElement(g, "field", {"name": "NotedItemID", "required": "N"})
    out.append(Variant("%s/add-group-name-with-No-twice" % label, s))
    # change one type-mapping entry to each allowed cast
    casts = ["String", "Int", "Float", "Bool", "Raw", "Time"]
    for ti, t in enumerate(list(b.types_root.iter("type"))):
        mine = [f.get("name") for f in b.fields().values() if f.get("type") == t.get("name")]
        used = any(n not in EXCLUDED and not n.startswith("No") for n in mine)
        # the Go types of the pipeline fields are fixed by the library's builder interfaces: a mapping that
        # changes them cannot yield a compiling package (one such variant is kept to document this)
        if not used or t.get("name") in ("STRING", "SEQNUM", "LENGTH", "NUMINGROUP") or any(n in PIPELINE for n in mine):
            continue
        for c in casts:
            if c == t.get("cast") or (sites != "all" and (ti + casts.index(c)) % 4 != 0):
                continue
            s = b.clone()
            for t2 in s.types_root.iter("type"):
                if t2.get("name") == t.get("name"):
                    t2.set("cast", c)
            out.append(Variant("%s/type-map %s->%s" % (label, t.get("name"), c), s))
    # a type is spelled differently - consistently, in the schema and in the mapping: names are arbitrary
    # labels, the package must come out as for the original spelling (the driver expects the mapped Go types)
    spell = {"title": lambda n: n[:1].upper() + n[1:].lower(), "lower": lambda n: n.lower(), "suffix": lambda n: n + "_v2"}
    for ti, t in enumerate(list(b.types_root.iter("type"))):
        mine = [f.get("name") for f in b.fields().values() if f.get("type") == t.get("name")]
        if not mine:
            continue
        for si, (how, fn) in enumerate(sorted(spell.items())):
            if sites != "all" and (ti + si) % 3 != 0:
                continue
            new = fn(t.get("name"))
            if new == t.get("name") or any(t2.get("name") == new for t2 in b.types_root.iter("type")):
                continue
            s = b.clone()
            for t2 in s.types_root.iter("type"):
                if t2.get("name") == t.get("name"):
                    t2.set("name", new)
            for f in s.root.find("fields").findall("field"):
                if f.get("type") == t.get("name"):
                    f.set("type", new)
            out.append(Variant("%s/type-respelled %s->%s" % (label, t.get("name"), new), s))
    # the same group name with different members in two places (the generator keeps one definition per name)
    multi = {}
    for g in b.root.iter("group"):
        multi.setdefault(g.get("name"), []).append(g)
    for n, gs in multi.items():
        if len(gs) > 1 and len(members(gs[0])) > 1:
            s = b.clone()
            g2 = [g for g in s.root.iter("group") if g.get("name") == n][0]
            kids = list(g2)
            a, bb = members(g2)[0], members(g2)[1]
            ia, ib = kids.index(a), kids.index(bb)
            g2.remove(a)
            g2.remove(bb)
            g2.insert(ia, bb)
            g2.insert(ib, a)
            out.append(Variant("%s/group-name-reuse conflicting member order %s" % (label, n), s))
            break
    # two components declare a group of the same name with different members (which definition the single
    # emitted type follows is the known finding; that it is the same one on every run is not negotiable)
    comps = list(b.components().values())
    if len(comps) >= 2:
        s = b.clone()
        n = next_num(s)
        flds = s.root.find("fields")
        ET.SubElement(flds, "field", {"number": n, "name": "NoDemoIDs", "type": "NUMINGROUP"})
        ET.SubElement(flds, "field", {"number": str(int(n) + 1), "name": "DemoIDa", "type": "STRING"})
        ET.SubElement(flds, "field", {"number": str(int(n) + 2), "name": "DemoIDb", "type": "INT"})
        ET.SubElement(flds, "field", {"number": str(int(n) + 3), "name": "DemoIDc", "type": "STRING"})
        cs = list(s.components().values())
        for ci, cdef in enumerate(cs[:3]):
            g = ET.SubElement(cdef, "group", {"name": "NoDemoIDs", "required": "N"})
            for m in (["DemoIDa", "DemoIDb"], ["DemoIDb", "DemoIDc", "DemoIDa"], ["DemoIDc"])[ci]:
                ET.SubElement(g, "field", {"name": m, "required": "N"})
        out.append(Variant("%s/group-name-reuse components declare NoDemoIDs differently" % label, s))
    # a type mapping that changes the Go type of a session-pipeline field
    for t in b.types_root.iter("type"):
        if t.get("name") == "BOOLEAN" and any(f.get("type") == "BOOLEAN" and f.get("name") in PIPELINE for f in b.fields().values()):
            s = b.clone()
            for t2 in s.types_root.iter("type"):
                if t2.get("name") == "BOOLEAN":
                    t2.set("cast", "String")
            out.append(Variant("%s/type-map-pipeline BOOLEAN->String" % label, s))
            break
    # duplicate field number (every kind pair: plain/plain, enum/enum, plain/enum, enum/plain; adjacent and far
    # apart) / duplicate message type: must be rejected
    fl0 = list(b.fields().values())
    cast = b.cast()
    isenum = lambda f: bool(f.findall("value")) and cast.get(f.get("type")) != "Bool"
    plains = [i for i, f in enumerate(fl0) if not isenum(f) and f.get("name") not in EXCLUDED]
    enums = [i for i, f in enumerate(fl0) if isenum(f)]
    pairs = [("plain-plain-adjacent", len(fl0) - 1, len(fl0) - 2)]
    if len(plains) > 3:
        pairs.append(("plain-plain-far", plains[-1], plains[1]))
    if len(enums) > 1:
        pairs.append(("enum-enum", enums[-1], enums[0]))
    if enums and plains:
        pairs.append(("enum-takes-number-of-plain", enums[0], plains[len(plains) // 2]))
        pairs.append(("plain-takes-number-of-enum", plains[len(plains) // 2], enums[-1]))
    # a field declaration repeated verbatim (same name, same number) is a duplicate number too
    s = b.clone()
    fl = list(s.fields().values())
    src = fl[len(fl) // 2]
    s.root.find("fields").append(copy.deepcopy(src))
    out.append(Variant("%s/duplicate-field-number verbatim-repeat %s" % (label, src.get("name")), s, expect_reject=True))
    for nm, i, j in pairs:
        if i == j:
            continue
        s = b.clone()
        fl = list(s.fields().values())
        fl[i].set("number", fl[j].get("number"))
        out.append(Variant("%s/duplicate-field-number %s" % (label, nm), s, expect_reject=True))
    s = b.clone()
    ms = s.messages()
    if len(ms) > 1:
        ms[-1].set("msgtype", ms[0].get("msgtype"))
        out.append(Variant("%s/duplicate-msgtype" % label, s, expect_reject=True))
    return out


def second_mapping(sch):
    """the schema's type mapping with the cast of one type changed (a type no pipeline field has): Int <-> String"""
    for t in sch.types_root.iter("type"):
        mine = [f.get("name") for f in sch.fields().values() if f.get("type") == t.get("name")]
        used = any(n not in EXCLUDED and not n.startswith("No") for n in mine)
        if not used or t.get("name") in ("STRING", "SEQNUM", "LENGTH", "NUMINGROUP") or any(n in PIPELINE for n in mine):
            continue
        if any(f.findall("value") for f in sch.fields().values() if f.get("type") == t.get("name")):
            continue  # (enum classification depends on the cast: keep the experiment to plain fields)
        new = {"Int": "String", "String": "Int", "Float": "String", "Time": "String"}.get(t.get("cast"))
        if new is None:
            continue
        s = sch.clone()
        for t2 in s.types_root.iter("type"):
            if t2.get("name") == t.get("name"):
                t2.set("cast", new)
        s.note = "%s: %s -> %s" % (t.get("name"), t.get("cast"), new)
        return s
    return None


def load(path_schema, path_types):
    return Schema(ET.parse(path_schema).getroot(), ET.parse(path_types).getroot())


def family(repo, tier):
    vs = []
    compact = Schema(ET.fromstring(COMPACT), ET.fromstring(COMPACT_TYPES))
    vs.append(Variant("compact", compact))
    vs += mutations(compact, "compact", "all")
    fix44 = load(os.path.join(repo, "source/fix44.xml"), os.path.join(repo, "source/types.xml"))
    vs.append(Variant("fix44", fix44, big=True))
    vs.append(Variant("fix44==tests/fix44", fix44, big=True))
    vs += mutations(fix44, "fix44", 9 if tier == "quick" else 2)
    big = load(os.path.join(repo, "generator/testdata/fix.4.4.xml"), os.path.join(repo, "generator/testdata/types.xml"))
    vs.append(Variant("testdata/fix.4.4.xml unmodified (duplicate message: must be rejected)", big, expect_reject=True, big=True))
    dedup = big.clone()
    seen = set()
    for m in list(dedup.messages()):
        if m.get("msgtype") in seen:
            dedup.root.find("messages").remove(m)
        seen.add(m.get("msgtype"))
    vs.append(Variant("testdata/fix.4.4.xml duplicate removed", dedup, big=True))
    return vs


# ------------------------------------------------------------------ running one variant

class Ctx:
    pass


def prepare(repo, scratch):
    c = Ctx()
    c.repo, c.scratch = repo, scratch
    c.fixgen = os.path.join(scratch, "fixgen")
    rc, out = sh(["go", "build", "-o", c.fixgen, "./cmd/fixgen"], cwd=repo)
    if rc != 0:
        print("cannot build fixgen:\n" + out)
        sys.exit(3)
    # twice: built inside a scratch module that requires the repository under test
    tw = os.path.join(scratch, "twice-mod")
    os.makedirs(tw)
    shutil.copy(os.path.join(os.path.dirname(os.path.abspath(__file__)), "twice", "main.go"), os.path.join(tw, "main.go"))
    open(os.path.join(tw, "go.mod"), "w").write(
        "module twice\n\ngo 1.21\n\nrequire github.com/b2broker/simplefix-go v0.0.0\nreplace github.com/b2broker/simplefix-go => %s\n" % repo)
    shutil.copy(os.path.join(repo, "go.sum"), os.path.join(tw, "go.sum"))
    c.twice = os.path.join(scratch, "twice")
    rc, out = sh(["go", "build", "-o", c.twice, "."], cwd=tw)
    if rc != 0:
        print("cannot build the twice driver against the generator API:\n" + out)
        sys.exit(3)
    c.astdiff = os.path.join(scratch, "astdiff")
    rc, out = sh(["go", "build", "-o", c.astdiff, "."], cwd=os.path.join(os.path.dirname(os.path.abspath(__file__)), "astdiff"))
    if rc != 0:
        print("cannot build astdiff:\n" + out)
        sys.exit(3)
    return c


def tree_bytes(d):
    m = {}
    for f in sorted(os.listdir(d)):
        m[f] = open(os.path.join(d, f), "rb").read()
    return m


def a0(mod):
    return tree_bytes(os.path.join(mod, "p"))


def run_variant(c, idx, v):
    """returns (list of (sig, detail), info)"""
    viol = []
    wd = os.path.join(c.scratch, "v%d" % idx)
    mod = os.path.join(wd, "mod")
    os.makedirs(mod)
    try:
        open(os.path.join(wd, "schema.xml"), "w").write(v.sch.xml())
        open(os.path.join(wd, "types.xml"), "w").write(v.sch.types_xml())
        open(os.path.join(mod, "go.mod"), "w").write(
            "module genmod\n\ngo 1.21\n\nrequire github.com/b2broker/simplefix-go v0.0.0\nreplace github.com/b2broker/simplefix-go => %s\n" % c.repo)
        shutil.copy(os.path.join(c.repo, "go.sum"), os.path.join(mod, "go.sum"))

        def gen(outdir, cwd):
            return sh([c.fixgen, "-o", outdir, "-t", os.path.join(wd, "types.xml"), "-s", os.path.join(wd, "schema.xml")], cwd=cwd, timeout=300)

        rc, out = gen("./p", mod)

        def verdict_varies(first_ok, runs=None):
            """the same schema, the same generator, the same command line: does the accept/refuse verdict change
            from run to run?  (a map whose iteration order decides a validation)  Looked for hard — a verdict that
            varies has to be found again by every replay — but only for the first few anomalies of a process."""
            if runs is None:
                c.heavy = getattr(c, "heavy", 0) + 1
                if c.heavy > 3 and not c.replaying:
                    return 0
                runs = 150 if not v.big else 12
            for r in range(runs):
                rcx, _ = gen("./pz", mod)
                shutil.rmtree(os.path.join(mod, "pz"), ignore_errors=True)
                if (rcx == 0) != first_ok:
                    return r + 2
            return 0

        # an unexpected refusal is re-run a few times; a replay looks for a changing verdict much harder, so that a
        # verdict that varies is reproduced every time and not just when the dice fall the same way
        if c.replaying or (rc != 0 and not v.expect_reject and not v.may_reject):
            k = verdict_varies(rc == 0)
            if k:
                viol.append(("nondeterministic:acceptance", "run 1 of %s %s the schema, run %d %s it" % (
                    v.name, "accepted" if rc == 0 else "refused", k, "refused" if rc == 0 else "accepted")))
                return viol, "nondeterministic"
        if v.expect_reject:
            if rc == 0:
                viol.append(("accepted-invalid-schema:" + v.name.split("/")[-1].split(" ")[0], "generator exited 0 on " + v.name))
            return viol, "rejected" if rc != 0 else "accepted"
        if rc != 0 and v.may_reject:
            return viol, "rejected (allowed)"
        if rc != 0:
            viol.append(("rejected-valid-schema:" + opclass(v.name), "generator failed on %s:\n%s" % (v.name, out[-1500:])))
            return viol, "gen-failed"
        if v.name == "fix44==tests/fix44":
            rc, out = sh([c.astdiff, os.path.join(mod, "p"), os.path.join(c.repo, "tests/fix44")])
            if rc != 0:
                viol.append(("reference-package-differs", out[-2500:]))
            return viol, "astdiff"
        # determinism (a schema with a group name declared differently in several places gets more runs: the
        # generator keeps its definitions in maps, and an iteration order that leaks shows only now and then)
        if "group-name-reuse" in v.name:
            for r in range(24):
                rcx, outx = gen("./px", mod)
                tx = tree_bytes(os.path.join(mod, "px")) if rcx == 0 else None
                shutil.rmtree(os.path.join(mod, "px"), ignore_errors=True)
                if tx is None or {f: c.replace(b"package px", b"package p") for f, c in tx.items()} != a0(mod):
                    viol.append(("nondeterministic:content", "run %d of the same schema wrote a different package (%s)" % (r + 2, v.name)))
                    return viol, "nondeterministic"  # every later comparison has the first run as its reference
        rc2, out2 = gen("./p2", mod)
        if rc2 != 0 and verdict_varies(True):
            viol.append(("nondeterministic:acceptance", "run 1 of %s accepted the schema, a later run refused it: %s" % (v.name, out2[-300:])))
            return viol, "nondeterministic"
        a, b = tree_bytes(os.path.join(mod, "p")), tree_bytes(os.path.join(mod, "p2"))
        if rc2 != 0 or set(a) != set(b):
            viol.append(("nondeterministic:file-set", "second run: rc=%d files %s vs %s" % (rc2, sorted(set(a) ^ set(b))[:10], "")))
        else:
            for f in a:
                if a[f].replace(b"package p2", b"package p") != b[f].replace(b"package p2", b"package p"):
                    viol.append(("nondeterministic:content", "file %s differs between two runs" % f))
                    break
        for f in a:
            if b"\npackage p\n" not in a[f]:
                viol.append(("wrong-package-clause", "file %s: %r" % (f, a[f][:120])))
                break
        # output directory forms (on the small schemas and a few large ones)
        if not v.big or v.name == "fix44":
            for form, od, cwd in (("nested", "a/b/p", mod), ("absolute", os.path.join(mod, "abs", "p"), wd), ("nested-dot", "./x/../y/p", mod),
                                  ("mixed-case", "Gen/OutDir_1/p", mod), ("space", "with space/p", mod), ("percent", "pct%d%s/p", mod),
                                  ("unicode", "caf\u00e9/\u0414/p", mod), ("symlink", "lnk/p", mod)):
                if form == "symlink":
                    # the last path element is a symbolic link to a directory of another name: the package is named
                    # after the path the user gave
                    os.makedirs(os.path.join(mod, "real_store_7"))
                    os.makedirs(os.path.join(mod, "lnk"))
                    os.symlink(os.path.join("..", "real_store_7"), os.path.join(mod, "lnk", "p"))
                rc3, out3 = gen(od, cwd)
                tgt = od if os.path.isabs(od) else os.path.join(cwd, od)
                if rc3 != 0 and verdict_varies(True):
                    viol.append(("nondeterministic:acceptance", "run 1 of %s accepted the schema, a later run refused it: %s" % (v.name, out3[-300:])))
                    return viol, "nondeterministic"
                if rc3 != 0:
                    viol.append(("outdir:%s-rejected" % form, "fixgen -o %s: %s" % (od, out3[-400:])))
                    continue
                t = tree_bytes(tgt)
                if t != a:
                    viol.append(("outdir:%s-differs" % form, "fixgen -o %s produced a different package" % od))
            # regeneration into a directory that already holds an earlier, longer generation of the same
            # files: the result depends on the schema alone, not on what the directory held before
            used = os.path.join(mod, "q", "p")
            os.makedirs(used)
            for f, content in a.items():
                open(os.path.join(used, f), "wb").write(content + b"\n// tail of an earlier generation\nvar _ = 1 +\n" * 3)
            rc4, out4 = gen("q/p", mod)
            if rc4 != 0 and verdict_varies(True):
                viol.append(("nondeterministic:acceptance", "run 1 of %s accepted the schema, a later run refused it: %s" % (v.name, out4[-300:])))
                return viol, "nondeterministic"
            if rc4 != 0:
                viol.append(("outdir:used-directory-rejected", out4[-400:]))
            elif tree_bytes(used) != a:
                t = tree_bytes(used)
                bad = sorted(f for f in a if t.get(f) != a[f])
                viol.append(("outdir:used-directory-differs", "regenerating over existing files left %d file(s) different from a fresh generation, e.g. %s (%d bytes instead of %d)" % (
                    len(bad), bad[0] if bad else "?", len(t.get(bad[0], b"")) if bad else 0, len(a[bad[0]]) if bad else 0)))
            shutil.rmtree(os.path.join(mod, "q"), ignore_errors=True)
            shutil.rmtree(os.path.join(mod, "a"), ignore_errors=True)
            shutil.rmtree(os.path.join(mod, "abs"), ignore_errors=True)
            shutil.rmtree(os.path.join(mod, "y"), ignore_errors=True)
            for d in ("Gen", "with space", "pct%d%s", "caf\u00e9", "lnk", "real_store_7"):
                shutil.rmtree(os.path.join(mod, d), ignore_errors=True)
        shutil.rmtree(os.path.join(mod, "p2"), ignore_errors=True)
        # one Generator object, two Execute calls (library API): both succeed and agree with the command line run
        if (not v.big or v.name == "fix44") and not any(sg.startswith("nondeterministic") for sg, _ in viol):
            # ... and a second Generator on the same parsed schema object with another type mapping gives what a
            # fresh parse with that mapping gives
            alt, ref3 = second_mapping(v.sch), None
            extra = []
            if alt is not None:
                open(os.path.join(wd, "types2.xml"), "w").write(alt.types_xml())
                rc6, out6 = sh([c.fixgen, "-o", "./p3ref/p", "-t", os.path.join(wd, "types2.xml"), "-s", os.path.join(wd, "schema.xml")], cwd=mod, timeout=300)
                if rc6 == 0:
                    ref3 = tree_bytes(os.path.join(mod, "p3ref", "p"))
                    extra = [os.path.join(wd, "types2.xml"), os.path.join(mod, "t3", "p")]
            rc5, out5 = sh([c.twice, os.path.join(wd, "schema.xml"), os.path.join(wd, "types.xml"), os.path.join(mod, "t1", "p"), os.path.join(mod, "t2", "p")] + extra, cwd=mod, timeout=300)
            if rc5 == 4 or (rc5 == 0 and ref3 is not None and tree_bytes(os.path.join(mod, "t3", "p")) != ref3):
                t3 = tree_bytes(os.path.join(mod, "t3", "p")) if rc5 == 0 else {}
                bad = sorted(f for f in (ref3 or {}) if t3.get(f) != ref3[f])
                viol.append(("schema-object-not-reusable", "a second Generator built on the same parsed schema with another type mapping (%s) %s" % (
                    alt.note, ("failed: " + out5[-300:]) if rc5 == 4 else "wrote %d file(s) that differ from a fresh generation with that mapping, e.g. %s" % (len(bad), bad[:3]))))
                rc5 = 0
            shutil.rmtree(os.path.join(mod, "p3ref"), ignore_errors=True)
            shutil.rmtree(os.path.join(mod, "t3"), ignore_errors=True)
            if rc5 == 3:
                viol.append(("HARNESS:twice", out5[-400:]))
            elif rc5 != 0 and verdict_varies(True):
                viol.append(("nondeterministic:acceptance", "run 1 of %s accepted the schema, a later run refused it: %s" % (v.name, out5[-300:])))
                return viol, "nondeterministic"
            elif rc5 != 0:
                viol.append(("generator-object-not-reusable", out5[-400:]))
            elif tree_bytes(os.path.join(mod, "t2", "p")) != a:
                viol.append(("generator-object-not-reusable", "the second Execute of one Generator wrote a package that differs from the command line run"))
            shutil.rmtree(os.path.join(mod, "t1"), ignore_errors=True)
            shutil.rmtree(os.path.join(mod, "t2"), ignore_errors=True)
        # compile + driver
        d = Driver(v.sch)
        try:
            src = d.build()
        except Exception as e:  # the harness could not derive a driver: harness bug, not a verdict
            viol.append(("HARNESS:driver-derivation", repr(e)))
            return viol, "harness"
        os.makedirs(os.path.join(mod, "driver"))
        open(os.path.join(mod, "driver", "main.go"), "w").write(src)
        rc, out = sh(["go", "build", "-o", os.path.join(mod, "drv"), "./driver"], cwd=mod, timeout=900)
        if rc != 0:
            # does the package itself compile?
            rcp, outp = sh(["go", "build", "./p"], cwd=mod, timeout=900)
            if rcp != 0:
                cls = opclass(v.name)
                if "does not implement messages." in outp and "type-map" in v.name:
                    cls = "type-map-changes-pipeline-field-type"
                if "does not implement messages." in outp and "missing method" in outp and "remove-pipeline" in v.name:
                    cls = "pipeline-field-removed-from-session-message"
                viol.append(("generated-package-does-not-compile:" + cls, outp[-1500:]))
            else:
                viol.append(("api-mismatch:" + opclass(v.name) + ":" + errclass(out), out[-1800:]))
            return viol, "compile-failed"
        rc, out = sh([os.path.join(mod, "drv")], cwd=mod, timeout=300)
        if d.skipped:
            viol.append(("group-name-reuse-with-different-members", "the schema defines a group name with different member lists in different places; the generator emits one type per name, so %d message(s) (%s...) cannot match their schema definition and were not exercised" % (len(d.skipped), ", ".join(d.skipped[:4]))))
        if rc != 0:
            fails = [l for l in out.splitlines() if l.startswith("FAIL")]
            viol.append(("driver:" + opclass(v.name) + ":" + failclass(fails), "\n".join(fails[:8]) or out[-800:]))
        return viol, "ok checks=%d" % d.nchecks
    finally:
        shutil.rmtree(wd, ignore_errors=True)


def opclass(name):
    parts = name.split("/")
    if len(parts) < 2:
        return parts[0].split(" ")[0]
    return parts[0] + "/" + parts[1].split(" ")[0]


def errclass(out):
    m = re.search(r"(cannot use [^\n]{0,60}|undefined: [\w.]+|not enough arguments[^\n]{0,40}|too many arguments[^\n]{0,40})", out)
    s = m.group(1) if m else "other"
    s = re.sub(r"\d+", "N", s)
    return re.sub(r"\s+", "_", s)[:70]


def failclass(fails):
    if not fails:
        return "crash"
    f = fails[0]
    for k in ("schema order", "returns what was set", "Create", "const", "Entries", ".Set", "empty", "MsgType"):
        if k in f:
            return re.sub(r"\s+", "_", k)
    return "other"


def main():
    ap = argparse.ArgumentParser()
    for a in ("-prop", "-tier", "-out", "-replay", "-known-file", "-repo", "-verif"):
        ap.add_argument(a, default="")
    ap.add_argument("-shard", type=int, default=0)
    ap.add_argument("-nshards", type=int, default=1)
    ap.add_argument("-deadline", type=float, default=0)
    ap.add_argument("-v", action="store_true")
    args = ap.parse_args()
    repo = args.repo or "/repo"
    known = set()
    if args.known_file and os.path.exists(args.known_file):
        for l in open(args.known_file):
            if l.startswith("known:") and "property=C12" in l:
                m = re.search(r"sig=(\S+)", l)
                if m:
                    known.add(m.group(1))
    scratch = tempfile.mkdtemp(prefix="genmc-")
    res = dict(property="C12", evals=0, transitions=0, states=0, classes=[], outcomes={}, samples=[], violations=[], exhaustive=True,
               bounds={}, counters={}, notes=[])
    try:
        c = prepare(repo, scratch)
        c.replaying = bool(args.replay) and json.load(open(args.replay)).get("sig") == "nondeterministic:acceptance"
        vs = family(repo, args.tier or "quick")
        res["bounds"]["schemas_in_family"] = len(vs)
        if args.replay:
            want = json.load(open(args.replay))["replay"]["variant"]
            vs = [v for v in vs if v.name == want]
            args.nshards, args.shard = 1, 0
        viol = {}
        for i, v in enumerate(vs):
            if i % args.nshards != args.shard:
                continue
            if args.deadline and time.time() - T0 > args.deadline:
                res["exhaustive"] = False
                res["capped"] = "deadline"
                break
            vl, info = run_variant(c, i, v)
            res["evals"] += 1
            res["classes"].append(v.name)
            res["outcomes"][info.split(" ")[0]] = res["outcomes"].get(info.split(" ")[0], 0) + 1
            if len(res["samples"]) < 4:
                res["samples"].append(dict(schema=v.name, result=info))
            for sig, det in vl:
                e = viol.setdefault(sig, dict(sig=sig, detail="[%s] %s" % (v.name, det[:1500]), replay=dict(variant=v.name), count=0))
                e["count"] += 1
        res["violations"] = list(viol.values())
    finally:
        shutil.rmtree(scratch, ignore_errors=True)
    res["wall_s"] = time.time() - T0
    json.dump(res, open(args.out, "w") if args.out else sys.stdout)


if __name__ == "__main__":
    main()
