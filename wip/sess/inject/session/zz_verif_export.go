package session

// Injected into the scratch copy only (never present in /repo): read access to private session
// state for state fingerprints of the explorers.

func (s *Session) VerifState() int {
	s.stateMu.RLock()
	defer s.stateMu.RUnlock()
	return int(s.state)
}
