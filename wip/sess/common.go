// Package main (vharness) is the E2 harness: scenarios, scripted network, monitors and explorers
// for the session/transport properties.  This source is rewritten onto vsched together with the
// repository (engine/rewrite), so `go`, channels, select, sync, context and time below run on the
// controlled scheduler and the virtual clock.  vlib is not rewritten and uses real time.
package main

import (
	"bytes"
	"context"
	"fmt"
	"sort"
	"strconv"
	"strings"
	"time"

	simplefixgo "github.com/b2broker/simplefix-go"
	"github.com/b2broker/simplefix-go/fix"
	"github.com/b2broker/simplefix-go/session"
	"github.com/b2broker/simplefix-go/session/messages"
	"github.com/b2broker/simplefix-go/storages/memory"
	fixgen "github.com/b2broker/simplefix-go/tests/fix44"
	"github.com/b2broker/simplefix-go/utils"
	"vsched"
)

func opts(allowed ...string) *session.Opts {
	if len(allowed) == 0 {
		allowed = []string{"0"}
	}
	am := map[string]struct{}{}
	for _, a := range allowed {
		am[a] = struct{}{}
	}
	return &session.Opts{
		MessageBuilders: session.MessageBuilders{
			HeaderBuilder:        fixgen.Header{}.New(),
			TrailerBuilder:       fixgen.Trailer{}.New(),
			LogonBuilder:         fixgen.Logon{}.New(),
			LogoutBuilder:        fixgen.Logout{}.New(),
			RejectBuilder:        fixgen.Reject{}.New(),
			HeartbeatBuilder:     fixgen.Heartbeat{}.New(),
			TestRequestBuilder:   fixgen.TestRequest{}.New(),
			ResendRequestBuilder: fixgen.ResendRequest{}.New(),
		},
		Tags:                    &messages.Tags{MsgType: 35, MsgSeqNum: 34, HeartBtInt: 108, EncryptedMethod: 98},
		AllowedEncryptedMethods: am,
		SessionErrorCodes:       &messages.SessionErrorCodes{IncorrectValue: 5, Other: 99, RequiredTagMissing: 1},
	}
}

// ---- independent encoder / tokenizer (never the library's) ----

type fld struct{ T, V string }

func frameFields(fs []fld) []byte {
	var body bytes.Buffer
	for _, f := range fs {
		body.WriteString(f.T + "=" + f.V + "\x01")
	}
	head := "8=FIX.4.4\x019=" + strconv.Itoa(body.Len()) + "\x01"
	sum := 0
	for _, b := range []byte(head) {
		sum += int(b)
	}
	for _, b := range body.Bytes() {
		sum += int(b)
	}
	return []byte(fmt.Sprintf("%s%s10=%03d\x01", head, body.String(), sum%256))
}

// rawFrom builds a framed message from sender to target.
func rawFrom(sender, target, msgType string, seq int, fields ...string) []byte {
	fs := []fld{{"35", msgType}, {"49", sender}, {"56", target}, {"34", strconv.Itoa(seq)}, {"52", "20240101-00:00:00.000"}}
	for _, f := range fields {
		i := strings.IndexByte(f, '=')
		fs = append(fs, fld{f[:i], f[i+1:]})
	}
	return frameFields(fs)
}

// damage kinds for inbound messages
func badChecksum(m []byte) []byte {
	o := append([]byte{}, m...)
	// flip the last checksum digit
	i := len(o) - 2
	if o[i] == '9' {
		o[i] = '0'
	} else {
		o[i]++
	}
	return o
}

func badLength(m []byte) []byte { return badLengthBy(m, 1) }

// badLengthBy rewrites 9=<n> to 9=<n+d> and recomputes the checksum so that only the length is wrong.
func badLengthBy(m []byte, d int) []byte {
	fs := tokens(m)
	n, _ := strconv.Atoi(fs[1].V)
	return reframe(fs, strconv.Itoa(n+d))
}

// reframe re-emits the fields with the given BodyLength text and a matching checksum.
func reframe(fs []fld, bl string) []byte {
	var b bytes.Buffer
	b.WriteString("8=" + fs[0].V + "\x019=" + bl + "\x01")
	for _, f := range fs[2 : len(fs)-1] {
		b.WriteString(f.T + "=" + f.V + "\x01")
	}
	sum := 0
	for _, c := range b.Bytes() {
		sum += int(c)
	}
	b.WriteString(fmt.Sprintf("10=%03d\x01", sum%256))
	return b.Bytes()
}

// withField returns m with the value of tag replaced (or the field removed when val == "\x00del"), reframed.
func withField(m []byte, tag, val string) []byte {
	fs := tokens(m)
	var inner []fld
	for _, f := range fs[2 : len(fs)-1] {
		if f.T == tag {
			if val == "\x00del" {
				continue
			}
			f.V = val
		}
		inner = append(inner, f)
	}
	return frameFields(inner)
}

// withDecoyAfterMsgType inserts one more field right after MsgType (i.e. before MsgSeqNum), reframed.
func withDecoyAfterMsgType(m []byte, field string) []byte {
	fs := tokens(m)
	i := strings.IndexByte(field, '=')
	var inner []fld
	for _, f := range fs[2 : len(fs)-1] {
		inner = append(inner, f)
		if f.T == "35" {
			inner = append(inner, fld{field[:i], field[i+1:]})
		}
	}
	return frameFields(inner)
}

func tokens(m []byte) []fld {
	var out []fld
	if len(m) > 0 && m[len(m)-1] == 1 {
		m = m[:len(m)-1]
	}
	for _, seg := range bytes.Split(m, []byte{1}) {
		i := bytes.IndexByte(seg, '=')
		if i < 0 {
			out = append(out, fld{"", string(seg)})
			continue
		}
		out = append(out, fld{string(seg[:i]), string(seg[i+1:])})
	}
	return out
}

func get(m []byte, tag string) (string, bool) {
	for _, f := range tokens(m) {
		if f.T == tag {
			return f.V, true
		}
	}
	return "", false
}

func mtype(m []byte) string { v, _ := get(m, "35"); return v }
func seqOf(m []byte) int    { v, _ := get(m, "34"); n, _ := strconv.Atoi(v); return n }

func show(b []byte) string { return strings.ReplaceAll(string(b), "\x01", "|") }

// wellFormed checks an outbound message with the independent integrity rules.
func wellFormed(m []byte) bool {
	fs := tokens(m)
	if len(fs) < 4 || fs[0].T != "8" || fs[1].T != "9" || fs[2].T != "35" || fs[len(fs)-1].T != "10" || m[len(m)-1] != 1 {
		return false
	}
	after := len("8=") + len(fs[0].V) + 1 + len("9=") + len(fs[1].V) + 1
	cs := len(m) - (len("10=") + len(fs[len(fs)-1].V) + 1)
	if strconv.Itoa(cs-after) != fs[1].V {
		return false
	}
	sum := 0
	for _, c := range m[:cs] {
		sum += int(c)
	}
	return fmt.Sprintf("%03d", sum%256) == fs[len(fs)-1].V
}

// ---- H1 world: real DefaultHandler + real Session + memory store ----

type outMsg struct {
	At  time.Duration
	Msg []byte
}

type wcfg struct {
	Role         string // "acc" | "ini"
	Buf          int
	HbMin, HbMax int
	Allowed      []string
	HbInt        int // initiator
	CloseTimeout time.Duration
	RefuseLogon  func(*session.LogonSettings) error
	Store        *memory.Storage // shared store (nil = fresh)
	CS           session.CounterStorage
	MS           session.MessageStorage
	User, Pass   string
	MinimalTags  bool          // Opts.Tags carries only MsgType and MsgSeqNum (the two the library insists on)
	SeqReset     bool          // the optional SequenceReset builder is configured
	LogonTimeout time.Duration // acceptor's LogonSettings.LogonTimeout (default 30 s)
	// PreSession runs between the construction of the handler and that of the session: what an application
	// registers on the handler first (a filter, say) runs in front of the session's own hooks
	PreSession func(h *simplefixgo.DefaultHandler)
	// Settings (acceptor): the settings object handed to the constructor, when several sessions are to be built
	// from one object as an acceptor callback naturally does
	Settings *session.LogonSettings
	// PreRun runs after the session has been constructed (its own hooks are registered) and before it is started
	// (an initiator sends its Logon when started)
	PreRun func(w *world)
	// Opts: the options object handed to the constructor, when several sessions are to share one (as the sessions
	// of one acceptor naturally do)
	Opts *session.Opts
	// Location: Opts.Location (the zone the session writes its timestamps in; "" = UTC)
	Location string
}

type world struct {
	cfg         wcfg
	h           *simplefixgo.DefaultHandler
	s           *session.Session
	st          *memory.Storage
	outs        []outMsg
	taken       int
	logonEv     int
	logoutEv    int
	discEv      int
	stopped     int
	hdisc       int
	runDone     bool
	runErr      error
	nextIn      int
	self, peer  string
	errs        []string
	ctxDoneAt   time.Duration
	ctxDone     bool
	lastLogonCB *session.LogonSettings
	onOut       func(m []byte) // called by the writer-loop stand-in for every message it takes off Outgoing()
	hold        bool           // the writer-loop stand-in stops taking messages (a peer that does not read) ...
	release     chan struct{}  // ... until something arrives here
}

func optsFor(c wcfg) *session.Opts {
	if c.Opts != nil {
		return c.Opts
	}
	o := opts(c.Allowed...)
	if c.MinimalTags {
		o.Tags = &messages.Tags{MsgType: 35, MsgSeqNum: 34}
	}
	if c.SeqReset {
		o.MessageBuilders.SequenceResetBuilder = fixgen.SequenceReset{}.New()
	}
	o.Location = c.Location
	return o
}

func newWorld(c wcfg) *world {
	w := &world{cfg: c, nextIn: 1}
	if c.Buf < 0 {
		c.Buf = 0
	}
	if c.HbMin == 0 {
		c.HbMin, c.HbMax = 1, 60
	}
	st := c.Store
	if st == nil {
		st = memory.NewStorage()
	}
	w.st = st
	var cs session.CounterStorage = st
	var ms session.MessageStorage = st
	if c.CS != nil {
		cs = c.CS
	}
	if c.MS != nil {
		ms = c.MS
	}
	var err error
	if c.Role == "ini" {
		w.self, w.peer = "CLI", "SRV"
		w.h = simplefixgo.NewInitiatorHandler(context.Background(), "35", c.Buf)
		if c.PreSession != nil {
			c.PreSession(w.h)
		}
		hb := c.HbInt
		if hb == 0 {
			hb = 30
		}
		w.s, err = session.NewInitiatorSession(w.h, optsFor(c), &session.LogonSettings{
			TargetCompID: w.peer, SenderCompID: w.self, HeartBtInt: hb, EncryptMethod: "0",
			Username: c.User, Password: c.Pass, CloseTimeout: c.CloseTimeout,
		}, cs, ms)
	} else {
		w.self, w.peer = "SRV", "CLI"
		w.h = simplefixgo.NewAcceptorHandler(context.Background(), "35", c.Buf)
		if c.PreSession != nil {
			c.PreSession(w.h)
		}
		lt := 30 * time.Second
		if c.LogonTimeout > 0 {
			lt = c.LogonTimeout
		}
		set := c.Settings
		if set == nil {
			set = &session.LogonSettings{
				LogonTimeout: lt, HeartBtLimits: &session.IntLimits{Min: c.HbMin, Max: c.HbMax}, CloseTimeout: c.CloseTimeout,
			}
		}
		w.s, err = session.NewAcceptorSession(optsFor(c), w.h, set, func(r *session.LogonSettings) error {
			w.lastLogonCB = r
			if c.RefuseLogon != nil {
				return c.RefuseLogon(r)
			}
			return nil
		}, cs, ms)
	}
	if err != nil {
		panic(fmt.Sprintf("harness: session constructor: %v", err))
	}
	w.s.OnError(func(e error) { w.errs = append(w.errs, e.Error()) })
	// the application's callbacks look at the session, as an application's do (a callback that is run while the
	// library holds the lock it needs never comes back)
	w.s.OnChangeState(utils.EventLogon, func() bool { w.logonEv++; _ = w.s.IsLogged(); return true })
	w.s.OnChangeState(utils.EventLogout, func() bool { w.logoutEv++; _ = w.s.IsLogged(); return true })
	w.s.OnChangeState(utils.EventDisconnect, func() bool { w.discEv++; _ = w.s.IsLogged(); return true })
	w.h.OnStopped(func() bool { w.stopped++; _ = w.s.IsLogged(); return true })
	w.h.OnDisconnect(func() bool { w.hdisc++; _ = w.s.IsLogged(); return true })
	// consumer of the outbound channel (stands for the connection's writer loop)
	w.release = make(chan struct{}, 1)
	go func() {
		for {
			if w.hold {
				<-w.release
			}
			m, ok := <-w.h.Outgoing()
			if !ok {
				return
			}
			w.outs = append(w.outs, outMsg{vsched.NowOffset(), append([]byte{}, m...)})
			if w.onOut != nil {
				w.onOut(m)
			}
		}
	}()
	go func() {
		<-w.s.Context().Done()
		w.ctxDone, w.ctxDoneAt = true, vsched.NowOffset()
	}()
	if c.PreRun != nil {
		c.PreRun(w)
	}
	if err := w.s.Run(); err != nil {
		panic(fmt.Sprintf("harness: session.Run: %v", err))
	}
	go func() {
		w.runErr = w.h.Run()
		w.runDone = true
	}()
	vsched.Settle()
	return w
}

// in delivers one inbound message and waits for the complete reaction.
func (w *world) in(m []byte) {
	if w.runDone {
		return // handler loop gone: nothing can be delivered any more
	}
	w.h.ServeIncoming(m)
	vsched.Settle()
}

// msg builds an inbound message from the peer with the next inbound sequence number.
func (w *world) msg(mt string, fields ...string) []byte {
	m := rawFrom(w.peer, w.self, mt, w.nextIn, fields...)
	w.nextIn++
	return m
}

// take returns the outbound messages emitted since the previous take.
func (w *world) take() []outMsg {
	o := w.outs[w.taken:]
	w.taken = len(w.outs)
	return o
}

func types(os []outMsg) string {
	var s []string
	for _, o := range os {
		s = append(s, mtype(o.Msg))
	}
	return strings.Join(s, ",")
}

// logonOK performs the standard successful logon for the role and returns the emitted messages.
func (w *world) logonOK(hb int) []outMsg {
	w.in(w.msg("A", "98=0", "108="+strconv.Itoa(hb)))
	return w.take()
}

// fingerprint of the reached session state (for state counting and BFS de-duplication)
func (w *world) fingerprint() string {
	in, _ := w.st.GetCurrSeqNum(fixStorageID(true))
	out, _ := w.st.GetCurrSeqNum(fixStorageID(false))
	hb := 0
	if w.s.LogonSettings != nil {
		hb = w.s.LogonSettings.HeartBtInt
	}
	return fmt.Sprintf("st=%d lg=%v in=%d out=%d hb=%d lev=%d loev=%d dev=%d stop=%d run=%v ctx=%v nout=%d tm=%s", w.s.VerifState(), w.s.IsLogged(), in, out, hb,
		w.logonEv, w.logoutEv, w.discEv, w.stopped, w.runDone, w.ctxDone, len(w.outs), timerSig())
}

func timerSig() string { return "" }

func fixStorageID(incoming bool) fix.StorageID {
	if incoming {
		return fix.StorageID{Side: fix.Incoming}
	}
	return fix.StorageID{Side: fix.Outgoing}
}

func sortedKeys(m map[string]int) []string {
	var k []string
	for s := range m {
		k = append(k, s)
	}
	sort.Strings(k)
	return k
}
