package main

// C13 — every way a connection can end leaves nothing blocked forever.  H2 level (full stack on
// the scripted socket).  Enumerated: role x buffer size x life-cycle point x termination cause x
// the POSITION of the cause: the cause is fired by an urgent task at scheduler step k after the
// life-cycle point, for every k up to the length of the undisturbed run, so that every relative
// timing of the cause and the in-flight hand-offs is covered; on top of that, delay-bounded
// schedule deviations.  After the cause virtual time runs for 60 s, then the oracle is evaluated.

import (
	"context"
	"errors"
	"fmt"
	"sort"
	"strings"
	"time"

	simplefixgo "github.com/b2broker/simplefix-go"
	"github.com/b2broker/simplefix-go/session"
	"github.com/b2broker/simplefix-go/storages/memory"
	fixgen "github.com/b2broker/simplefix-go/tests/fix44"
	"github.com/b2broker/simplefix-go/utils"
	"vlib"
	"vsched"
)

type c13Case struct {
	Role  string `json:"role"`
	Buf   int    `json:"buf"`
	Point string `json:"point"` // nologon | logged | inbound2 | sends2 | logout
	Cause string `json:"cause"` // eof | reset | readerr | writeerr | writeblock | close | hstop | sstop
	Pos   int    `json:"pos"`   // scheduler step (after the life-cycle point) at which the cause fires
}

type c13Obs struct {
	served      bool
	serveErr    error
	lasReturned bool
	closed      bool
	hdisc       int
	stopped     int
	sdisc       int
	lateSendRet bool
	connLog     string
	alivePre    []string // acceptor: library tasks of the ended connection still alive BEFORE the acceptor is closed
	alive       []vsched.Leak
	logged      bool
	steps       int
	causeFired  bool
}

var errInjected = errors.New("injected i/o error")

// c13Body builds the stack, reaches the life-cycle point, arms the cause and lets time pass.
func c13Body(c c13Case, o *c13Obs) {
	*o = c13Obs{}
	cn := newConn(0)
	var h *simplefixgo.DefaultHandler
	var s *session.Session
	var cl *simplefixgo.Initiator
	var acc *simplefixgo.Acceptor
	st := memory.NewStorage()
	const hb = 1
	peer, self := "SRV", "CLI"
	vsched.Deterministic(func() {
		if c.Role == "ini" {
			h = simplefixgo.NewInitiatorHandler(context.Background(), "35", c.Buf)
			cl = simplefixgo.NewInitiator(cn, h, c.Buf, 5*time.Second)
			var err error
			s, err = session.NewInitiatorSession(h, opts(), &session.LogonSettings{
				TargetCompID: peer, SenderCompID: self, HeartBtInt: hb, EncryptMethod: "0", CloseTimeout: time.Second,
			}, st, st)
			if err != nil {
				panic(err)
			}
			h.OnDisconnect(func() bool { o.hdisc++; return true })
			h.OnStopped(func() bool { o.stopped++; return true })
			go func() { o.serveErr = cl.Serve(); o.served = true }()
			_ = s.Run()
			vsched.Settle()
		} else {
			peer, self = "CLI", "SRV"
			l := &slistener{}
			acc = simplefixgo.NewAcceptor(l, simplefixgo.NewAcceptorHandlerFactory("35", c.Buf), 5*time.Second, func(ah simplefixgo.AcceptorHandler) {
				h = ah.(*simplefixgo.DefaultHandler)
				var err error
				s, err = session.NewAcceptorSession(opts(), ah, &session.LogonSettings{
					LogonTimeout: 30 * time.Second, HeartBtLimits: &session.IntLimits{Min: 1, Max: 60}, CloseTimeout: time.Second,
				}, func(*session.LogonSettings) error { return nil }, st, st)
				if err != nil {
					panic(err)
				}
				_ = s.Run()
				ah.OnDisconnect(func() bool { o.hdisc++; return true })
				ah.OnStopped(func() bool { o.stopped++; return true })
			})
			go func() { o.serveErr = acc.ListenAndServe(); o.lasReturned = true }()
			l.q = append(l.q, cn)
			vsched.Settle()
		}
		s.OnChangeState(utils.EventDisconnect, func() bool { o.sdisc++; return true })
		seq := 1
		if c.Point != "nologon" {
			cn.feed(rawFrom(peer, self, "A", seq, "98=0", fmt.Sprintf("108=%d", hb)))
			seq++
			vsched.Settle()
			o.logged = s.IsLogged()
		}
		switch c.Point {
		case "logout":
			_ = s.Logout()
			vsched.Settle()
		}
		_ = seq
	})
	seq := 2
	// in-flight traffic at the moment of the cause (no settling in between)
	switch c.Point {
	case "inbound2":
		cn.feed(append(rawFrom(peer, self, "0", seq), rawFrom(peer, self, "1", seq+1, "112=x")...))
	case "sends2":
		cn.blockW = c.Cause != "writeerr"
		for i := 0; i < 2; i++ {
			go func() { _ = s.Send(fixgen.NewMarketDataRequest().SetMDReqID("inflight")) }()
		}
	}
	var causeAt time.Duration
	windowClosed := false
	cause := func() {
		if windowClosed {
			return // the position lies beyond the observation window: nothing is injected, nothing is judged
		}
		o.causeFired = true
		causeAt = vsched.NowOffset()
		switch c.Cause {
		case "eof":
			cn.eof = true
		case "reset":
			cn.reset = true
		case "readerr":
			half := rawFrom(peer, self, "0", 9)
			cn.feed(half[:len(half)/2])
			cn.readErr = errInjected
		case "nomsgtype":
			// a correctly framed message without MsgType: the handler loop ends with an error
			cn.feed(frameFields([]fld{{"49", peer}, {"56", self}, {"34", "7"}, {"58", "no type"}}))
			go func() {
				time.Sleep(2 * time.Second)
				cn.eof = true // ... and the peer closes a little later
			}()
		case "writeerr":
			cn.blockW = false
			cn.writeErr = errInjected
			go func() { _ = s.Send(fixgen.NewMarketDataRequest().SetMDReqID("probe")) }()
		case "writeblock":
			cn.blockW = true
			go func() { _ = s.Send(fixgen.NewMarketDataRequest().SetMDReqID("probe")) }()
		case "close":
			if cl != nil {
				cl.Close()
			} else {
				acc.Close()
			}
		case "hstop":
			h.Stop()
		case "sstop":
			_ = s.Stop()
		}
	}
	vsched.GoUrgentAt(c.Pos, "cause:"+c.Cause, cause)
	time.Sleep(60 * time.Second)
	vsched.Settle()
	vsched.MarkSpanEnd()
	windowClosed = true
	if o.causeFired && vsched.NowOffset()-causeAt < 60*time.Second {
		// the cause fired late in the window (idle positions are time jumps): the settling time of
		// 60 s counts from the cause
		time.Sleep(60*time.Second - (vsched.NowOffset() - causeAt))
		vsched.Settle()
	}
	o.closed = cn.closed
	// (d) a fresh Send issued afterwards returns
	go func() {
		_ = s.Send(fixgen.NewMarketDataRequest().SetMDReqID("late"))
		o.lateSendRet = true
	}()
	time.Sleep(30 * time.Second)
	vsched.Settle()
	if acc != nil && c.Cause != "close" {
		// the acceptor itself keeps listening after one connection ended, but everything that belongs to
		// the ended connection must be gone by now (only the accept loop may remain) ...
		for _, t := range libTasks(vsched.Alive()) {
			if !strings.HasSuffix(t, "@accept") {
				o.alivePre = append(o.alivePre, t)
			}
		}
		// ... and closing the acceptor must end the rest
		acc.Close()
		time.Sleep(10 * time.Second)
		vsched.Settle()
	}
	o.alive = vsched.Alive()
	o.connLog = cn.logStr()
}

func libTasks(alive []vsched.Leak) []string {
	var out []string
	for _, l := range alive {
		if strings.HasPrefix(l.Name, "main.") || strings.HasPrefix(l.Name, "cause:") {
			continue
		}
		out = append(out, l.Name+"@"+l.Op)
	}
	sort.Strings(out)
	return out
}

func c13Check(c c13Case, o *c13Obs) (string, string) {
	if !o.causeFired {
		return "", "" // position beyond the end of the run: nothing happened (counted, not judged)
	}
	lib := libTasks(o.alive)
	det := fmt.Sprintf("served=%v err=%v las=%v closed=%v hdisc=%d stopped=%d sdisc=%d lateSend=%v alive=%v socket-log=[%s]", o.served, o.serveErr, o.lasReturned, o.closed, o.hdisc, o.stopped, o.sdisc, o.lateSendRet, lib, o.connLog)
	blk := ""
	if len(lib) > 0 {
		blk = ":" + strings.Join(uniq(lib), "+")
	}
	if c.Role == "ini" && !o.served {
		return "serve-not-returned" + blk, det
	}
	if c.Role == "acc" && !o.lasReturned {
		return "listenandserve-not-returned" + blk, det
	}
	if !o.closed {
		return "socket-not-closed" + blk, det
	}
	peerCaused := c.Cause == "eof" || c.Cause == "reset" || c.Cause == "readerr" || c.Cause == "writeerr" || c.Cause == "writeblock"
	// (a message without MsgType ends the handler loop with an error: the statement promises no notification for that)
	if peerCaused && o.hdisc+o.stopped+o.sdisc == 0 {
		return "no-disconnect-notification" + blk, det
	}
	if !o.lateSendRet {
		return "later-send-blocks" + blk, det
	}
	if len(o.alivePre) > 0 {
		return "connection-tasks-outlive-the-connection:" + strings.Join(uniq(o.alivePre), "+"), det
	}
	if len(lib) > 0 {
		return "tasks-left" + blk, det
	}
	return "", ""
}

func uniq(s []string) []string {
	var out []string
	for i, x := range s {
		if i == 0 || x != s[i-1] {
			out = append(out, x)
		}
	}
	return out
}

func c13ScenarioOf(c c13Case, bound int) *schedScenario {
	var obs c13Obs
	p := map[string]any{"role": c.Role, "buf": c.Buf, "point": c.Point, "cause": c.Cause, "pos": c.Pos}
	sc := &schedScenario{Name: "c13", Params: p, Strict: true, Delay: true, Bound: bound, MaxSteps: 400000}
	sc.Body = func() { c13Body(c, &obs) }
	sc.Check = func(r *vsched.Result) (string, string) {
		obs.steps = r.Steps
		return c13Check(c, &obs)
	}
	sc.Outcome = func() string {
		return fmt.Sprintf("fired=%v served=%v closed=%v notif=%v late=%v alive=%d", obs.causeFired, obs.served || obs.lasReturned, obs.closed, obs.hdisc+obs.stopped+obs.sdisc > 0, obs.lateSendRet, len(libTasks(obs.alive)))
	}
	return sc
}

func c13FromParams(name string, p map[string]any) *schedScenario {
	return c13ScenarioOf(c13Case{Role: pstr(p, "role"), Buf: pint(p, "buf"), Point: pstr(p, "point"), Cause: pstr(p, "cause"), Pos: pint(p, "pos")}, 0)
}

func runC13(R *vlib.Out) {
	if *vlib.ReplayPath != "" {
		var probe struct {
			Scenario string `json:"scenario"`
		}
		vlib.LoadReplay(&probe)
		if probe.Scenario == "c13x" {
			replaySched(R, c13xScenario)
		} else {
			replaySched(R, c13FromParams)
		}
		finishSched(R)
		return
	}
	runC13x(R)
	thorough := *vlib.Tier == "thorough"
	points := []string{"nologon", "logged", "inbound2", "sends2", "logout"}
	// Session.Stop is not among the endings the statement lists (it only cancels the session context) and is not judged here
	causes := []string{"eof", "reset", "readerr", "writeerr", "writeblock", "close", "hstop", "nomsgtype"}
	bufs := []int{0, 1, 10}
	unit := 0
	for _, role := range []string{"ini", "acc"} {
		for _, buf := range bufs {
			for _, pt := range points {
				for _, cause := range causes {
					if pt == "nologon" && cause == "sstop" {
						continue // Stop of a session that never logged on is not a connection ending
					}
					// length of the run when the cause never fires (position beyond the end)
					probe := c13ScenarioOf(c13Case{Role: role, Buf: buf, Point: pt, Cause: cause, Pos: 1 << 30}, 0)
					unit++
					mineProbe := vlib.Mine(unit)
					_ = mineProbe
					var maxPos int
					{
						r := vsched.Run(vsched.Options{StrictTime: true, MaxSteps: probe.MaxSteps}, probe.Body)
						maxPos = vsched.LastArmSpan
						_ = r
					}
					capPos := 400
					if thorough {
						capPos = 1500
					}
					if maxPos > capPos {
						maxPos = capPos
					}
					stride := 1
					if !thorough && maxPos > 120 {
						stride = 2
					}
					for pos := 0; pos <= maxPos; pos += stride {
						unit++
						if !vlib.Mine(unit) {
							continue
						}
						if vlib.Expired() {
							R.Cap("deadline")
							goto done
						}
						c := c13Case{Role: role, Buf: buf, Point: pt, Cause: cause, Pos: pos}
						sc := c13ScenarioOf(c, 0)
						R.Eval()
						r := vsched.Run(vsched.Options{StrictTime: true, MaxSteps: sc.MaxSteps, WantStacks: false}, sc.Body)
						sig, detail := "", ""
						switch {
						case r.Panic != "":
							sig, detail = "panic-in-task:"+r.PanicTask, r.Panic
						case r.Capped:
							sig, detail = "livelock-or-step-cap", fmt.Sprint(r.Steps)
						case r.MainBlocked:
							sig, detail = "call-never-returned", "the scenario's main task is blocked for good in "+r.MainOp+leakedStr(r.Leaked)
						default:
							sig, detail = sc.Check(&r)
						}
						R.Outcome(sc.Outcome())
						R.ClassU(fmt.Sprintf("%s/%d/%s/%s/%s", role, buf, pt, cause, sc.Outcome()))
						R.Sample(5, c)
						if sig != "" {
							R.Violate(sig, fmt.Sprintf("%+v: %s", c, detail), schedReplay{"c13", sc.Params, nil, true, true})
						}
					}
				}
			}
		}
	}
	{
		// delay-bounded deviations on top of selected positions
		bound := 1
		var scs []c13Case
		if thorough {
			for _, role := range []string{"ini", "acc"} {
				for _, buf := range []int{0, 1} {
					for _, pt := range points {
						for _, cause := range causes {
							for _, pos := range []int{0, 1, 2, 3, 5, 8, 13, 21, 34} {
								scs = append(scs, c13Case{Role: role, Buf: buf, Point: pt, Cause: cause, Pos: pos})
							}
						}
					}
				}
			}
		} else {
			for _, role := range []string{"ini", "acc"} {
				for _, pt := range []string{"inbound2", "sends2", "logged"} {
					for _, cause := range []string{"hstop", "eof", "close", "writeerr"} {
						for _, pos := range []int{0, 3, 9} {
							scs = append(scs, c13Case{Role: role, Buf: 0, Point: pt, Cause: cause, Pos: pos})
						}
					}
				}
			}
		}
		if thorough {
			// delay bound 2 on the cells with hand-offs in flight
			var deep []c13Case
			for _, role := range []string{"ini", "acc"} {
				for _, pt := range []string{"inbound2", "sends2"} {
					for _, cause := range []string{"hstop", "eof", "close"} {
						deep = append(deep, c13Case{Role: role, Buf: 0, Point: pt, Cause: cause, Pos: 0})
					}
				}
			}
			for i, c := range deep {
				if vlib.Expired() {
					R.Cap("deadline")
					break
				}
				scenarioBudget = vlib.Remaining() / time.Duration(2*(len(deep)-i)) // leave half for the bound-1 sweep
				exploreSched(R, c13ScenarioOf(c, 2))
			}
		}
		for i, c := range scs {
			if !vlib.Mine(i) && false {
				continue
			}
			if vlib.Expired() {
				R.Cap("deadline")
				break
			}
			scenarioBudget = 8 * vlib.Remaining() / time.Duration(len(scs)-i) // most cells finish far below their share
			exploreSched(R, c13ScenarioOf(c, bound))
		}
	}
done:
	finishSched(R)
}
