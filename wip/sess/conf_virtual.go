package main

// Controlled-scheduler side of the conformance check (see harness/conf/scenario.go, which is copied
// next to this file at build time).

import (
	"encoding/json"
	"os"
	"sync"
	"time"

	"vlib"
	"vsched"
)

type virtEnv struct{ mu sync.Mutex }

func (e *virtEnv) Settle()               { vsched.Settle() }
func (e *virtEnv) Sleep(d time.Duration) { time.Sleep(d) }
func (e *virtEnv) Spawn(f func())        { go f() }
func (e *virtEnv) Lock()                 { e.mu.Lock() }
func (e *virtEnv) Unlock()               { e.mu.Unlock() }

func runConformance() {
	out := map[string][]string{}
	for _, role := range []string{"acc", "ini"} {
		for _, v := range []string{"untimed", "timed"} {
			role, v := role, v
			var seq []string
			res := vsched.Run(vsched.Options{StrictTime: true}, func() { seq = confScenario(&virtEnv{}, role, v) })
			if res.Panic != "" {
				seq = append(seq, "PANIC "+res.Panic)
			}
			out[role+"/"+v] = seq
		}
	}
	b, _ := json.Marshal(out)
	if *vlib.OutPath != "" {
		_ = os.WriteFile(*vlib.OutPath, b, 0o644)
	} else {
		os.Stdout.Write(b)
	}
}
