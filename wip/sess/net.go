package main

// Scripted net.Conn / net.Listener on vsched primitives (H2 level): the harness decides how the
// inbound byte stream is cut into reads, when the peer closes or resets, when writes fail or block
// until the write deadline, and observes every byte the library writes and whether / when it
// closes the socket.

import (
	"fmt"
	"io"
	"net"
	"strings"
	"time"

	"vsched"
)

type timeoutErr struct{}

func (timeoutErr) Error() string   { return "i/o timeout" }
func (timeoutErr) Timeout() bool   { return true }
func (timeoutErr) Temporary() bool { return true }

type resetErr struct{}

func (resetErr) Error() string { return "read: connection reset by peer" }

type wrec struct {
	At   time.Duration
	Data []byte
}

type sconn struct {
	id        int
	in        [][]byte // pending read chunks: one Read returns (part of) one chunk
	eof       bool     // peer closed: reads return io.EOF once the chunks are drained
	reset     bool     // peer reset: the next read fails immediately
	readErr   error    // injected read error
	writeErr  error    // injected write error
	blockW    bool     // peer stops reading: Write blocks until the write deadline, then times out
	holdW     bool     // the peer is momentarily slow: Write blocks until the harness clears the flag (no deadline involved)
	partialAt int      // >0: the partialAt-th Write accepts only partialN bytes and then reports a timeout
	partialN  int
	nwrites   int
	closed    bool
	closedAt  time.Duration
	written   []wrec
	wdeadline time.Duration // virtual offset; 0 = none
	wexpired  bool
	rdeadline time.Duration // read deadline as a virtual offset; 0 = none
	rgen      int           // incremented by every SetReadDeadline: an armed expiry belongs to one setting
	rexpired  bool
	reads     int
	log       []string // event log (reads, writes, errors, close) with virtual instants
}

func (c *sconn) ev(f string, a ...any) {
	if len(c.log) < 200 {
		c.log = append(c.log, fmt.Sprintf("%v:", vsched.NowOffset())+fmt.Sprintf(f, a...))
	}
}

type addr struct{}

func (addr) Network() string { return "scripted" }
func (addr) String() string  { return "scripted" }

func newConn(id int) *sconn { return &sconn{id: id} }

func readReady(c *sconn) bool {
	return len(c.in) > 0 || c.eof || c.closed || c.reset || c.readErr != nil
}

func (c *sconn) logStr() string { return strings.Join(c.log, " ") }

func readExpire(c *sconn, gen int) {
	if c.rgen == gen {
		c.rexpired = true
	}
}

func readReadyOrExpired(c *sconn) bool { return readReady(c) || c.rexpired }

func (c *sconn) Read(p []byte) (int, error) {
	// a read deadline, if the library sets one, is honoured in virtual time: the call returns a
	// timeout error when the deadline passes with nothing to read
	c.rexpired = false
	if !readReady(c) && c.rdeadline > 0 {
		if d := c.rdeadline - vsched.NowOffset(); d <= 0 {
			c.rexpired = true
		} else {
			gen := c.rgen
			vsched.AddOneShot(d, func() { readExpire(c, gen) })
		}
	}
	vsched.PointOp("conn.read", 1000+c.id, func() bool { return readReadyOrExpired(c) })
	if vsched.Aborting() {
		return 0, net.ErrClosed
	}
	c.reads++
	if !readReady(c) && c.rexpired {
		c.ev("read->timeout")
		return 0, &net.OpError{Op: "read", Net: "scripted", Err: timeoutErr{}}
	}
	if c.closed {
		c.ev("read->closed")
		return 0, net.ErrClosed
	}
	if c.reset {
		c.ev("read->reset")
		return 0, resetErr{}
	}
	if len(c.in) == 0 && c.readErr != nil {
		c.ev("read->err")
		return 0, c.readErr
	}
	if len(c.in) == 0 {
		c.ev("read->EOF")
		return 0, io.EOF
	}
	n := copy(p, c.in[0])
	if n < len(c.in[0]) {
		c.in[0] = c.in[0][n:]
	} else {
		c.in = c.in[1:]
	}
	return n, nil
}

func writeUnblocked(c *sconn) bool { return !c.blockW || c.closed || c.wexpired }

func (c *sconn) Write(p []byte) (int, error) {
	vsched.PointOp("conn.write", 1000+c.id, nil)
	if vsched.Aborting() {
		return 0, net.ErrClosed
	}
	if c.holdW && !c.closed {
		vsched.PointOp("conn.write-held", 1000+c.id, func() bool { return writeReleased(c) })
		if vsched.Aborting() {
			return 0, net.ErrClosed
		}
	}
	// the decision to block is taken when the call is granted (the peer may stop reading at any moment)
	if c.blockW && !c.closed {
		c.wexpired = false
		if c.wdeadline > 0 {
			vsched.AddOneShot(c.wdeadline-vsched.NowOffset(), func() { markExpired(c) })
		}
		vsched.PointOp("conn.write-blocked", 1000+c.id, func() bool { return writeUnblocked(c) })
		if vsched.Aborting() {
			return 0, net.ErrClosed
		}
		if c.closed {
			c.ev("write->closed")
			return 0, net.ErrClosed
		}
		if c.blockW {
			c.ev("write->timeout")
			return 0, &net.OpError{Op: "write", Net: "scripted", Err: timeoutErr{}}
		}
	}
	if c.closed {
		c.ev("write->closed")
		return 0, net.ErrClosed
	}
	if c.writeErr != nil {
		c.ev("write->err")
		return 0, c.writeErr
	}
	c.nwrites++
	if c.partialAt > 0 && c.nwrites == c.partialAt && c.partialN < len(p) {
		c.ev("write %d of %d bytes, then timeout", c.partialN, len(p))
		c.written = append(c.written, wrec{vsched.NowOffset(), append([]byte{}, p[:c.partialN]...)})
		return c.partialN, &net.OpError{Op: "write", Net: "scripted", Err: timeoutErr{}}
	}
	c.ev("write %d bytes", len(p))
	c.written = append(c.written, wrec{vsched.NowOffset(), append([]byte{}, p...)})
	return len(p), nil
}

func markExpired(c *sconn)        { c.wexpired = true }
func writeReleased(c *sconn) bool { return !c.holdW || c.closed }

func (c *sconn) Close() error {
	vsched.PointOp("conn.close", 1000+c.id, nil)
	if c.closed {
		return net.ErrClosed
	}
	c.closed = true
	c.closedAt = vsched.NowOffset()
	c.ev("close")
	return nil
}
func (c *sconn) LocalAddr() net.Addr  { return addr{} }
func (c *sconn) RemoteAddr() net.Addr { return addr{} }
func (c *sconn) SetDeadline(t time.Time) error {
	_ = c.SetReadDeadline(t)
	return c.SetWriteDeadline(t)
}
func (c *sconn) SetReadDeadline(t time.Time) error {
	if c.closed {
		return net.ErrClosed
	}
	c.rgen++
	c.rdeadline = 0
	if !t.IsZero() {
		c.rdeadline = t.Sub(vsched.Epoch)
		if c.rdeadline <= 0 {
			c.rdeadline = 1 // already in the past
		}
	}
	return nil
}
func (c *sconn) SetWriteDeadline(t time.Time) error {
	if c.closed {
		return net.ErrClosed
	}
	c.wdeadline = t.Sub(vsched.Epoch)
	return nil
}

// feed appends read chunks (the harness task is the peer).
func (c *sconn) feed(chunks ...[]byte) {
	for _, ch := range chunks {
		if len(ch) > 0 {
			c.in = append(c.in, append([]byte{}, ch...))
		}
	}
}

// stream returns everything written so far, concatenated.
func (c *sconn) stream() []byte {
	var b []byte
	for _, w := range c.written {
		b = append(b, w.Data...)
	}
	return b
}

// splitStream cuts a byte stream into FIX messages with an independent tokenizer: a message ends
// with the SOH that terminates the first field whose tag is exactly "10" after a "8=" start.
func splitStream(b []byte) (msgs [][]byte, rest []byte) {
	start := 0
	fieldStart := 0
	for i := 0; i < len(b); i++ {
		if b[i] != 1 {
			continue
		}
		f := b[fieldStart:i]
		fieldStart = i + 1
		if len(f) >= 3 && f[0] == '1' && f[1] == '0' && f[2] == '=' {
			msgs = append(msgs, b[start:i+1])
			start = i + 1
		}
	}
	return msgs, b[start:]
}

type slistener struct {
	q      []net.Conn
	closed bool
}

func acceptReady(l *slistener) bool { return len(l.q) > 0 || l.closed }

func (l *slistener) Accept() (net.Conn, error) {
	vsched.PointOp("accept", 999, func() bool { return acceptReady(l) })
	if vsched.Aborting() || l.closed {
		return nil, net.ErrClosed
	}
	c := l.q[0]
	l.q = l.q[1:]
	return c, nil
}
func (l *slistener) Close() error {
	vsched.PointOp("listener.close", 999, nil)
	l.closed = true
	return nil
}
func (l *slistener) Addr() net.Addr { return addr{} }
