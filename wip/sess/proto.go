package main

// Logon/logout protocol properties decided by history exploration on H1:
//   C06  logged on only through a valid, approved Logon exchange
//   C07  nothing but Logon, Logout and Reject before a successful logon
//   C16  invalid administrative messages: exactly one Reject, nothing else changes
// One reference monitor (a three-state automaton W/L/O written from the property statements)
// tracks where the session ought to be; each property evaluates its own clauses on every step.

import (
	"errors"
	"fmt"
	"strconv"
	"strings"
	"time"

	"github.com/b2broker/simplefix-go/session"
	"github.com/b2broker/simplefix-go/storages/memory"
	fixgen "github.com/b2broker/simplefix-go/tests/fix44"
	"vlib"
	"vsched"
)

// classification of an inbound event, attached to the event by name prefix conventions
type inbound struct {
	Type       string // MsgType
	Valid      bool   // passes integrity and field parsing
	Acceptable bool   // (Logon) additionally within limits, allowed method, approved
	RefTag     string // (Logon) offending field expected in the Reject ("" = none)
	SeqKnown   bool   // MsgSeqNum present and numeric
	Seq        func(w *world) int
	OtherIDs   bool // (Logon) sent by another counterparty pair (OTHER -> DESK) than the world's default
}

type protoEvent struct {
	event
	In    *inbound // nil for local actions
	Local string   // "send" | "logout" | ""
}

type protoMon struct {
	endedBySilence bool
	ids            [2]string // accepting side: SenderCompID / TargetCompID every outbound message carries since the last accepted Logon
	prop           string
	role           string
	state          byte // 'W' waiting for a Logon, 'L' logged on, 'O' logout sent by us, awaiting answer
	everLogged     bool
	sawInvalid     bool
	silences       int
	loggedOut      bool // the session was logged on and has left that state at least once
	silAfterLO     int  // silence periods since then: the test-request timer of the ended logon may have fired
	evs            map[string]*protoEvent
	lastSeq        int
	ended          bool
}

func (m *protoMon) Key() string {
	return fmt.Sprintf("%c%v%v%d%v%d", m.state, m.everLogged, m.sawInvalid, m.silences, m.loggedOut, m.silAfterLO)
}

func countType(outs []outMsg, t string) int {
	n := 0
	for _, o := range outs {
		if mtype(o.Msg) == t {
			n++
		}
	}
	return n
}

// Step evaluates one step.  Symptoms that appear only after "logged on, logged out, then a silent
// period" share one root cause (the timers of the ended logon keep running and the test-request
// task rewrites the session state); they are reported under the prefix after-logout+silence: with
// the event name dropped, so that the finding is one signature per symptom, not per event.
func (m *protoMon) Step(w *world, ev event, outs []outMsg) (string, string) {
	sig, d := m.step(w, ev, outs)
	if sig != "" && m.prop == "C06" && m.silAfterLO > 0 {
		if i := strings.Index(sig, ":"); i >= 0 {
			sig = sig[:i]
		}
		sig = "after-logout+silence:" + sig
	}
	return sig, d
}

func (m *protoMon) step(w *world, ev event, outs []outMsg) (string, string) {
	pe := m.evs[ev.Name]
	before := m.state
	logged := w.s.IsLogged()
	for _, o := range outs {
		if !wellFormed(o.Msg) {
			return "malformed-outbound", show(o.Msg)
		}
	}
	// ---- reference automaton ----
	in := pe.In
	seq := m.lastSeq
	if in != nil && in.Seq != nil {
		seq = in.Seq(w)
	}
	if pe.Local == "silence" {
		m.silences++
		if m.loggedOut {
			m.silAfterLO++
		}
	}
	switch {
	case pe.Local == "logout":
		m.state = 'O'
	case in != nil && in.Type == "A" && before == 'W' && in.Acceptable:
		m.state = 'L'
		m.everLogged = true
	case in != nil && in.Type == "5" && in.Valid && (before == 'L' || before == 'O'):
		m.state = 'W'
	}
	if w.runDone || w.ctxDone {
		m.ended = true // (the silent-peer rule or a stop has ended the session: what is fed to it afterwards is not processed)
	}
	if m.role == "acc" && m.prop == "C06" {
		if in != nil && in.Type == "A" && before == 'W' && in.Acceptable && !m.ended {
			m.ids = [2]string{w.self, w.peer}
			if in.OtherIDs {
				m.ids = [2]string{"DESK", "OTHER"}
			}
		}
		if m.ids[0] != "" && (before == 'L' || before == 'O' || m.state == 'L') && !(in != nil && in.Type == "2") && !w.runDone && !w.ctxDone && !m.ended { // (retransmissions keep the identifiers they were first sent with)
			for _, o := range outs {
				snd, _ := get(o.Msg, "49")
				tgt, _ := get(o.Msg, "56")
				if snd != m.ids[0] || tgt != m.ids[1] {
					return "outbound-carries-other-identifiers:" + evClass(pe), fmt.Sprintf("49=%s 56=%s on %s; the accepted Logon established %s -> %s | outs=[%s]", snd, tgt, typeName(mtype(o.Msg)), m.ids[0], m.ids[1], outsStr(outs))
				}
			}
		}
		if before != 'W' && m.state == 'W' {
			// the logon that established the identifiers is over: whoever logs on next (or is refused next) is
			// answered with the identifiers of its own Logon
			m.ids = [2]string{}
		}
	}
	if m.prop == "C07" && !m.everLogged {
		// judged first: what was transmitted counts even if the session has meanwhile shut itself down
		for _, o := range outs {
			t := mtype(o.Msg)
			if t != "A" && t != "5" && t != "3" {
				return "pre-logon:" + evClass(pe) + "->" + typeName(t), fmt.Sprintf("message type %s sent before any successful logon | model %c->%c outs=[%s]", t, before, m.state, outsStr(outs))
			}
		}
	}
	if before == 'L' && m.state != 'L' {
		m.loggedOut = true
	}
	if w.runDone || w.ctxDone {
		if m.prop == "C16" && (pe.Local == "silence" || m.endedBySilence) {
			m.endedBySilence = true // the silent-peer rule (C09) ended the session: nothing left to judge
			return "", ""
		}
		if m.prop == "C16" {
			return "session-stopped-by:" + evClass(pe), fmt.Sprintf("handler loop returned=%v (err %v) session context done=%v", w.runDone, w.runErr, w.ctxDone)
		}
		return "", ""
	}
	det := func(f string, a ...any) string {
		return fmt.Sprintf(f, a...) + fmt.Sprintf(" | model %c->%c IsLogged=%v outs=[%s]", before, m.state, logged, outsStr(outs))
	}
	switch m.prop {
	case "C07":
		if !m.everLogged {
			for _, o := range outs {
				t := mtype(o.Msg)
				if t != "A" && t != "5" && t != "3" {
					return "pre-logon:" + evClass(pe) + "->" + typeName(t), det("message type %s sent before any successful logon", t)
				}
			}
		}
		// messages emitted by the accepted Logon itself (the reply) are after the logon by definition
		if m.everLogged && before == 'W' && in != nil && in.Type == "A" {
			return "", ""
		}
	case "C06":
		if pe.Local == "silence" && !m.everLogged && len(outs) > 0 {
			// nobody has logged on on this connection yet (Logons so far were refused or damaged): a session that
			// is waiting for a Logon has no timers and says nothing by itself
			return "not-logged-on-session-speaks-by-itself", det("%d message(s) during 35 s of silence before any successful logon", len(outs))
		}
		if pe.Local == "silence" && before == 'L' && m.state == 'L' && countType(outs, "0")+countType(outs, "1") == 0 {
			// 35 s without traffic on a logged-on session (intervals 5 and 30 s): its timers must have spoken
			return "logged-on-session-went-quiet", det("neither a Heartbeat nor a TestRequest in 35 s of silence: an earlier event disturbed the session")
		}
		if logged && m.state != 'L' {
			if m.everLogged && m.silences > 0 {
				// an approved Logon happened earlier on this connection and the session was logged out
				// since; it came back to "logged on" through the test-request timer, without a new Logon
				return "relogged-by-timer-after-logout", det("IsLogged()=true again after a logout, without a new Logon (reference automaton in %c)", m.state)
			}
			return "logged-without-valid-logon:" + evClass(pe), det("IsLogged()=true but the reference automaton is in %c", m.state)
		}
		if in != nil && in.Type == "A" {
			switch {
			case before == 'W' && in.Acceptable:
				// reply: first new message is a Logon echoing HeartBtInt and EncryptMethod; it may be
				// followed by one ResendRequest (gap detection, C10's business); logged on; one EventLogon
				if m.role == "acc" {
					if len(outs) == 0 || mtype(outs[0].Msg) != "A" {
						return "logon-not-answered:" + evClass(pe), det("no Logon reply")
					}
					hb, _ := get(outs[0].Msg, "108")
					em, _ := get(outs[0].Msg, "98")
					if hb != m.evHB(pe) || em != "0" {
						return "logon-reply-not-echoing", det("reply 108=%s 98=%s", hb, em)
					}
					for _, o := range outs[1:] {
						if mtype(o.Msg) != "2" {
							return "logon-extra-output", det("unexpected output after the Logon reply")
						}
					}
				} else if len(outs) != countType(outs, "2") {
					return "logon-extra-output", det("initiator answered a Logon with something else than a ResendRequest")
				}
				if !logged {
					return "not-logged-after-valid-logon:" + evClass(pe), det("IsLogged()=false after an acceptable Logon")
				}
			case before == 'W' && !in.Acceptable:
				if logged {
					return "logged-after-refused-logon:" + evClass(pe), det("IsLogged()=true")
				}
				if s, d := m.expectReject(outs, in, seq, pe, true); s != "" {
					return s, det("%s", d)
				}
			case before == 'L':
				if !logged {
					return "second-logon-disturbed-session:" + evClass(pe), det("IsLogged()=false")
				}
				if s, d := m.expectReject(outs, in, seq, pe, false); s != "" {
					return s, det("%s", d)
				}
			}
		}
	case "C16":
		if in == nil {
			return "", ""
		}
		invalid := !in.Valid
		notPermitted := false
		switch in.Type {
		case "0", "1", "2":
			notPermitted = before == 'W'
		case "5":
			notPermitted = before == 'W'
		case "A":
			notPermitted = before == 'L'
		}
		admin := strings.Contains("A,5,0,1,2", in.Type) && in.Type != ","
		if admin && (invalid || notPermitted) {
			m.sawInvalid = true
			why := "damaged"
			if !invalid {
				why = "not-permitted"
			}
			stateName := map[byte]string{'W': "waiting-logon", 'L': "logged-on", 'O': "logout-sent"}[before]
			tag := fmt.Sprintf("%s:%s@%s", why, evClass(pe), stateName)
			if before == 'O' && !invalid {
				return "", ""
			}
			if loggedBefore := before == 'L'; logged != loggedBefore && before != 'O' {
				return tag + "->logged-state-changed", det("IsLogged() %v -> %v", loggedBefore, logged)
			}
			if n := countType(outs, "3"); n != 1 || len(outs) != 1 {
				if n == 0 {
					return tag + "->no-reject", det("expected exactly one Reject")
				}
				return tag + "->extra-output", det("expected exactly one Reject and nothing else")
			}
			if s, d := m.expectReject(outs, in, seq, pe, false); s != "" {
				return tag + "->" + s, det("%s", d)
			}
			return "", ""
		}
		// valid traffic after an invalid message must be processed normally
		if m.sawInvalid && in.Valid {
			switch {
			case in.Type == "1" && before == 'L':
				if countType(outs, "0") != 1 {
					return "after-invalid:testrequest-not-answered", det("")
				}
			case in.Type == "A" && before == 'W' && in.Acceptable:
				if !logged {
					return "after-invalid:logon-not-accepted", det("")
				}
			}
		}
	}
	return "", ""
}

func (m *protoMon) evHB(pe *protoEvent) string {
	i := strings.Index(pe.Name, "hb=")
	if i < 0 {
		return "30"
	}
	j := i + 3
	for j < len(pe.Name) && pe.Name[j] >= '0' && pe.Name[j] <= '9' {
		j++
	}
	return pe.Name[i+3 : j]
}

// expectReject: exactly one Reject whose RefSeqNum is the offending sequence number, or which
// names tag 34 when that number is missing or not numeric; RefTagID names the offending field.
func (m *protoMon) expectReject(outs []outMsg, in *inbound, seq int, pe *protoEvent, wantTag bool) (string, string) {
	if countType(outs, "3") != 1 {
		return "no-single-reject:" + evClass(pe), fmt.Sprintf("%d Rejects", countType(outs, "3"))
	}
	var rej []byte
	for _, o := range outs {
		if mtype(o.Msg) == "3" {
			rej = o.Msg
		}
	}
	if len(outs) != 1 {
		return "extra-output-with-reject:" + evClass(pe), ""
	}
	ref, _ := get(rej, "45")
	rtag, _ := get(rej, "371")
	if in.SeqKnown {
		if ref != strconv.Itoa(seq) {
			return "reject-wrong-refseqnum:" + evClass(pe), fmt.Sprintf("RefSeqNum=%s want %d", ref, seq)
		}
	} else if rtag != "34" {
		return "reject-not-naming-seqnum-tag:" + evClass(pe), fmt.Sprintf("RefTagID=%s", rtag)
	}
	if wantTag && in.RefTag != "" && rtag != in.RefTag {
		return "reject-wrong-reftagid:" + evClass(pe), fmt.Sprintf("RefTagID=%s want %s", rtag, in.RefTag)
	}
	return "", ""
}

func evClass(pe *protoEvent) string { return pe.Name }

func typeName(t string) string {
	switch t {
	case "0":
		return "Heartbeat"
	case "1":
		return "TestRequest"
	case "2":
		return "ResendRequest"
	case "4":
		return "SequenceReset"
	case "A":
		return "Logon"
	case "5":
		return "Logout"
	case "3":
		return "Reject"
	}
	return "app(" + t + ")"
}

func outsStr(outs []outMsg) string {
	var s []string
	for _, o := range outs {
		s = append(s, show(o.Msg))
	}
	return strings.Join(s, "  ")
}

// ---- alphabets ----

func inEv(name, typ string, valid, acceptable bool, refTag string, seqKnown bool, build func(w *world) []byte) *protoEvent {
	pe := &protoEvent{In: &inbound{Type: typ, Valid: valid, Acceptable: acceptable, RefTag: refTag, SeqKnown: seqKnown}}
	var last int
	pe.In.Seq = func(w *world) int { return last }
	pe.event = event{Name: name, Do: func(w *world) {
		m := build(w)
		last = seqOf(m)
		w.in(m)
	}}
	return pe
}

func protoAlphabet(role string, which string) []*protoEvent {
	lg := func(fields ...string) func(w *world) []byte {
		return func(w *world) []byte { return w.msg("A", fields...) }
	}
	acc := role == "acc"
	var evs []*protoEvent
	add := func(e *protoEvent) { evs = append(evs, e) }
	// Logons.  For the initiator every well-formed Logon is acceptable (it checks nothing).
	if which != "C07" {
		add(inEv("Logon(ok,hb=30)", "A", true, true, "", true, lg("98=0", "108=30")))
		add(inEv("Logon(ok,hb=5)", "A", true, true, "", true, lg("98=0", "108=5")))
		add(inEv("Logon(ok,seq-ahead,hb=30)", "A", true, true, "", true, func(w *world) []byte { w.nextIn += 3; return w.msg("A", "98=0", "108=30") }))
		// the peer sets ResetSeqNumFlag: whatever the session makes of it, its own numbering stays consecutive (C05)
		// and everything else about a Logon holds
		add(inEv("Logon(ok,reset=Y,hb=30)", "A", true, true, "", true, lg("98=0", "108=30", "141=Y")))
	}
	if which == "C06" && acc {
		// another counterparty pair: accepted like any Logon while waiting for one (its identifiers are then the
		// session's), rejected while logged on - without the session taking over anything from it
		e := inEv("Logon(ok,other-ids,hb=30)", "A", true, true, "", true, func(w *world) []byte {
			m := rawFrom("OTHER", "DESK", "A", w.nextIn, "98=0", "108=30")
			w.nextIn++
			return m
		})
		e.In.OtherIDs = true
		add(e)
	}
	add(inEv("Logon(hb=4<min)", "A", true, !acc, "108", true, lg("98=0", "108=4")))
	add(inEv("Logon(hb=31>max)", "A", true, !acc, "108", true, lg("98=0", "108=31")))
	add(inEv("Logon(method=1-disallowed)", "A", true, !acc, "98", true, lg("98=1", "108=30")))
	add(inEv("Logon(credentials-refused)", "A", true, !acc, "", true, lg("98=0", "108=30", "553=bad")))
	add(inEv("Logon(bad-checksum)", "A", false, false, "", true, func(w *world) []byte { return badChecksum(w.msg("A", "98=0", "108=30")) }))
	add(inEv("Logon(bad-length)", "A", false, false, "", true, func(w *world) []byte { return badLength(w.msg("A", "98=0", "108=30")) }))
	add(inEv("Logon(hb-not-numeric)", "A", false, false, "", true, lg("98=0", "108=x")))
	if which != "C16" {
		// a Logon that lacks a parameter altogether (after one that carried it: nothing may be remembered)
		add(inEv("Logon(no-108)", "A", true, !acc, "108", true, lg("98=0")))
		add(inEv("Logon(no-98)", "A", true, !acc, "98", true, lg("108=30")))
	}
	// other administrative messages
	add(inEv("Heartbeat", "0", true, false, "", true, func(w *world) []byte { return w.msg("0") }))
	// a sequence number written with leading zeros (legal), large enough for octal and decimal readings to differ
	add(inEv("Heartbeat(seq-zero-padded)", "0", true, false, "", true, func(w *world) []byte {
		w.nextIn += 9
		m := w.msg("0")
		return withField(m, "34", "00"+strconv.Itoa(seqOf(m)))
	}))
	add(inEv("TestRequest", "1", true, false, "", true, func(w *world) []byte { return w.msg("1", "112=T1") }))
	add(inEv("ResendRequest(1,0)", "2", true, false, "", true, func(w *world) []byte { return w.msg("2", "7=1", "16=0") }))
	add(inEv("Logout", "5", true, false, "", true, func(w *world) []byte { return w.msg("5") }))
	add(inEv("App(D)", "D", true, false, "", true, func(w *world) []byte { return w.msg("D", "11=x") }))
	// message types are case-sensitive: 'a' (QuoteStatusRequest) is an application message, not a Logon ('A')
	add(inEv("App(a)", "a", true, false, "", true, func(w *world) []byte { return w.msg("a", "649=q", "98=0", "108=30") }))
	add(inEv("Unknown(ZZ)", "ZZ", true, false, "", true, func(w *world) []byte { return w.msg("ZZ") }))
	switch which {
	case "C07":
		add(inEv("ResendRequest(1,1)", "2", true, false, "", true, func(w *world) []byte { return w.msg("2", "7=1", "16=1") }))
		add(inEv("ResendRequest(1,2)", "2", true, false, "", true, func(w *world) []byte { return w.msg("2", "7=1", "16=2") }))
		add(inEv("ResendRequest(0,0)", "2", true, false, "", true, func(w *world) []byte { return w.msg("2", "7=0", "16=0") }))
		add(inEv("ResendRequest(2,1)", "2", true, false, "", true, func(w *world) []byte { return w.msg("2", "7=2", "16=1") }))
		add(inEv("ResendRequest(1,9)", "2", true, false, "", true, func(w *world) []byte { return w.msg("2", "7=1", "16=9") }))
		add(&protoEvent{event: event{Name: "Silence(3 periods)", Do: func(w *world) { sleepFor(95) }}})
	case "C16":
		add(inEv("Heartbeat(bad-checksum)", "0", false, false, "", true, func(w *world) []byte { return badChecksum(w.msg("0")) }))
		add(inEv("TestRequest(bad-length)", "1", false, false, "", true, func(w *world) []byte { return badLength(w.msg("1", "112=T2")) }))
		add(inEv("TestRequest(length-1)", "1", false, false, "", true, func(w *world) []byte { return badLengthBy(w.msg("1", "112=T4"), -1) }))
		add(inEv("Logout(length-3)", "5", false, false, "", true, func(w *world) []byte { return badLengthBy(w.msg("5"), -3) }))
		add(inEv("Heartbeat(seq-empty)", "0", false, false, "", false, func(w *world) []byte { return withField(w.msg("0"), "34", "") }))
		// intact messages that merely lack the sequence number: where they are not permitted the Reject names tag 34
		del34 := func(m []byte) []byte { return withField(m, "34", "\x00del") }
		add(inEv("Heartbeat(seq-missing)", "0", true, false, "", false, func(w *world) []byte { return del34(w.msg("0")) }))
		add(inEv("TestRequest(seq-missing)", "1", true, false, "", false, func(w *world) []byte { return del34(w.msg("1", "112=T5")) }))
		add(inEv("ResendRequest(seq-missing)", "2", true, false, "", false, func(w *world) []byte { return del34(w.msg("2", "7=1", "16=0")) }))
		add(inEv("Logout(seq-missing)", "5", true, false, "", false, func(w *world) []byte { return del34(w.msg("5")) }))
		// a field whose tag merely ends in 34, and a value that mentions 34=, ahead of the genuine MsgSeqNum: the
		// Reject still refers to the genuine number
		add(inEv("Heartbeat(5034=..-before-34)", "0", true, false, "", true, func(w *world) []byte { return withDecoyAfterMsgType(w.msg("0"), "5034=desk-7") }))
		add(inEv("TestRequest(5034-before-34,bad-checksum)", "1", false, false, "", true, func(w *world) []byte {
			return badChecksum(withDecoyAfterMsgType(w.msg("1", "112=T6"), "5034=desk-7"))
		}))
		add(inEv("ResendRequest(text-34=-before-34,begin-not-numeric)", "2", false, false, "", true, func(w *world) []byte {
			return withDecoyAfterMsgType(w.msg("2", "7=x", "16=0"), "50=see 34=999")
		}))
		// numbers no int can hold (19 digits above 2^63-1, 20 digits that wrap to small values): not numeric for
		// the purpose of this protocol, wherever they stand
		add(inEv("Heartbeat(seq=2^63)", "0", false, false, "", false, func(w *world) []byte { return withField(w.msg("0"), "34", "9223372036854775808") }))
		add(inEv("TestRequest(seq=2^64+3)", "1", false, false, "", false, func(w *world) []byte { return withField(w.msg("1", "112=T7"), "34", "18446744073709551619") }))
		add(inEv("ResendRequest(begin=2^64+1,end=2^64+2)", "2", false, false, "", true, func(w *world) []byte {
			return w.msg("2", "7=18446744073709551617", "16=18446744073709551618")
		}))
		// the peer falls silent until the session probes it: the session's own TestRequest is outstanding
		add(&protoEvent{Local: "silence", event: event{Name: "Silence(32 s)", Do: func(w *world) { sleepFor(32) }}})
		add(inEv("ResendRequest(begin-empty)", "2", false, false, "", true, func(w *world) []byte { return w.msg("2", "7=", "16=0") }))
		add(inEv("ResendRequest(begin-not-numeric)", "2", false, false, "", true, func(w *world) []byte { return w.msg("2", "7=x", "16=0") }))
		add(inEv("Logout(bad-checksum)", "5", false, false, "", true, func(w *world) []byte { return badChecksum(w.msg("5")) }))
		add(inEv("Heartbeat(seq-missing,bad-checksum)", "0", false, false, "", false, func(w *world) []byte { return badChecksum(withField(w.msg("0"), "34", "\x00del")) }))
		add(inEv("TestRequest(seq-not-numeric,bad-length)", "1", false, false, "", false, func(w *world) []byte { return badLength(withField(w.msg("1", "112=T3"), "34", "x7")) }))
		add(inEv("Logon(seq-missing,hb-not-numeric)", "A", false, false, "", false, func(w *world) []byte { return withField(w.msg("A", "98=0", "108=zz"), "34", "\x00del") }))
	case "C06":
		add(&protoEvent{Local: "silence", event: event{Name: "Silence(35 s)", Do: func(w *world) { sleepFor(35) }}})
		add(&protoEvent{Local: "send", event: event{Name: "local Send(app)", Do: func(w *world) { _ = w.s.Send(fixgen.NewMarketDataRequest()) }}})
		add(&protoEvent{Local: "logout", event: event{Name: "local Logout", Do: func(w *world) { _ = w.s.Logout() }}})
	}
	return evs
}

func sleepFor(sec int) { time.Sleep(time.Duration(sec) * time.Second) }
func settle()          { vsched.Settle() }

var errRefused = errors.New("credentials refused")

func protoCfgs(prop string, tier string) []*histCfg {
	var cfgs []*histCfg
	depth := map[string]map[string]int{
		"C06": {"quick": 4, "thorough": 5},
		"C07": {"quick": 4, "thorough": 5},
		"C16": {"quick": 4, "thorough": 5},
	}[prop][tier]
	for _, role := range []string{"acc", "ini"} {
		role := role
		stores := []string{"fresh"}
		if prop == "C07" {
			stores = []string{"fresh", "shared-populated"}
		}
		for _, store := range stores {
			store := store
			pevs := protoAlphabet(role, prop)
			byName := map[string]*protoEvent{}
			var alpha []event
			for _, e := range pevs {
				byName[e.Name] = e
				alpha = append(alpha, e.event)
			}
			leaf := map[string]bool{}
			if prop == "C16" {
				// damaged messages and the forms that differ only in how the Reject must refer to them change nothing
				// (that is the property): they are judged in the last two positions, after every state the other events build
				for _, e := range pevs {
					if e.In != nil && (!e.In.Valid || !e.In.SeqKnown || strings.Contains(e.Name, "5034")) {
						leaf[e.Name] = true
					}
				}
			}
			c := &histCfg{
				Leaf:     leaf,
				Name:     fmt.Sprintf("%s/%s/%s", prop, role, store),
				Alphabet: alpha,
				Depth:    depth,
				World: func() *world {
					var st *memory.Storage
					if store == "shared-populated" {
						st = populatedStore()
					}
					return newWorld(wcfg{Role: role, Buf: 10, HbMin: 5, HbMax: 30, HbInt: 30, Store: st,
						RefuseLogon: func(r *session.LogonSettings) error {
							if r.Username == "bad" {
								return errRefused
							}
							return nil
						}})
				},
				NewMon: func(w *world) monitor {
					return &protoMon{prop: prop, role: role, state: 'W', evs: byName}
				},
			}
			cfgs = append(cfgs, c)
			if tier == "thorough" {
				// deeper exploration over a core alphabet (the events that move the automaton or the timers)
				core := map[string]bool{"Logon(ok,hb=30)": true, "Logon(credentials-refused)": true, "Logon(bad-checksum)": true, "Logout": true,
					"local Logout": true, "Silence(35 s)": true, "Silence(3 periods)": true, "Heartbeat": true, "TestRequest": true,
					"ResendRequest(1,0)": true, "ResendRequest(1,2)": true, "Logout(bad-checksum)": true, "TestRequest(length-1)": true, "Logon(hb=31>max)": true}
				var calpha []event
				for _, e := range alpha {
					if core[e.Name] {
						calpha = append(calpha, e)
					}
				}
				cc := *c
				cc.Name = c.Name + "/core"
				cc.Alphabet = calpha
				cc.Depth = 6
				cfgs = append(cfgs, &cc)
			}
		}
	}
	return cfgs
}

// populatedStore returns a memory store that already holds three messages of an earlier session.
func populatedStore() *memory.Storage {
	st := memory.NewStorage()
	w := newWorld(wcfg{Role: "acc", Buf: 10, HbMin: 5, HbMax: 30, Store: st})
	w.logonOK(30)
	_ = w.s.Send(fixgen.NewMarketDataRequest().SetMDReqID("secret-1"))
	_ = w.s.Send(fixgen.NewMarketDataRequest().SetMDReqID("secret-2"))
	settle()
	w.h.Stop()
	settle()
	return st
}

func runProto(R *vlib.Out, prop string) {
	cfgs := protoCfgs(prop, *vlib.Tier)
	if *vlib.ReplayPath != "" {
		var probe struct {
			Scenario string `json:"scenario"`
		}
		vlib.LoadReplay(&probe)
		if probe.Scenario == "c16conn" {
			runC16conn(R)
			return
		}
		if probe.Scenario == "logon-sweep" {
			runLogonSweep(R, prop)
			return
		}
		replayHist(R, cfgs)
		return
	}
	if prop == "C16" {
		runC16conn(R) // the connection-level part first: it is small
	}
	if prop == "C06" || prop == "C07" {
		runLogonSweep(R, prop)
	}
	for _, c := range cfgs {
		exploreHist(R, c)
	}
}

// ---- logon parameter sweep (C06 / C07) ----
// One Logon on a fresh accepting session: every heartbeat interval of a list that contains the limits,
// their neighbours and the values at which arithmetic on seconds / nanoseconds wraps around (2^31,
// 2^32, 2^63/10^9, 2^64/10^9 and multiples, 2^63-1) x encryption method {allowed, disallowed, absent} x
// Opts.Tags {all four tags, only the two the library insists on}; followed by three heartbeat periods
// of silence and a TestRequest.  C06: logged on iff the interval is within the limits and the method is
// allowed, otherwise exactly one Reject with the Logon's number and the session not logged on.  C07:
// nothing but Logon / Logout / Reject reaches a peer whose Logon was refused, not even later.

type sweepCase struct {
	Scenario string `json:"scenario"` // "logon-sweep"
	HB       string `json:"hb"`
	Method   string `json:"method"` // "0" allowed, "1" not allowed, "" absent
	Minimal  bool   `json:"minimal_tags"`
	Min, Max int    `json:"-"` // heartbeat limits of the accepting session (0,0 = the default 5..30)
	Limits   string `json:"limits,omitempty"`
	Relogon  string `json:"relogon,omitempty"` // "peer" | "local": initiator, second logon after a logout exchange
}

var sweepHBs = []string{"-1", "0", "1", "4", "5", "6", "29", "30", "31", "61", "3600", "86400", "2147483647", "2147483648", "4294967296", "4294967301",
	"9223372036", "9223372037", "9223372042", "18446744073", "18446744074", "18446744075", "18446744079", "18446744100", "18446744103", "18446744104",
	"27670116115", "36893488148", "36893488153", "9223372036854775807", "9223372036854775808", "18446744073709551621"}

func sweepRun(prop string, c sweepCase) (string, string) {
	if c.Relogon == "shared-options" {
		// two accepting sessions built from one options object, each with heartbeat limits of its own: a Logon is
		// judged by the limits of the session it arrives at
		o := opts()
		w1 := newWorld(wcfg{Role: "acc", Buf: 10, HbMin: 5, HbMax: 30, Opts: o})
		w2 := newWorld(wcfg{Role: "acc", Buf: 10, HbMin: 40, HbMax: 60, Opts: o})
		w2.in(w2.msg("A", "98=0", "108=10"))
		if w2.s.IsLogged() {
			return "sweep:logged-after-logon-outside-limits", fmt.Sprintf("limits 40..60 (another session of the same options object has 5..30) | Logon 108=10 accepted: outs=[%s]", outsStr(w2.outs))
		}
		w1.in(w1.msg("A", "98=0", "108=10"))
		if !w1.s.IsLogged() {
			return "sweep:acceptable-logon-not-accepted", fmt.Sprintf("limits 5..30 | Logon 108=10: outs=[%s]", outsStr(w1.outs))
		}
		w3 := newWorld(wcfg{Role: "acc", Buf: 10, HbMin: 40, HbMax: 60, Opts: o})
		w3.in(w3.msg("A", "98=0", "108=50"))
		if !w3.s.IsLogged() {
			return "sweep:acceptable-logon-not-accepted", fmt.Sprintf("limits 40..60 | Logon 108=50: outs=[%s]", outsStr(w3.outs))
		}
		return "", ""
	}
	if c.Relogon != "" {
		// the second logon of an initiating session: logon, a logout exchange (begun by the peer or locally), then
		// the application asks for a logon again and the peer answers it
		w := newWorld(wcfg{Role: "ini", Buf: 10, HbInt: 30})
		w.logonOK(30)
		if !w.s.IsLogged() {
			return "setup:not-logged", ""
		}
		if c.Relogon == "local" {
			_ = w.s.Logout()
			vsched.Settle()
		}
		w.in(w.msg("5"))
		w.take()
		_ = w.s.LogonRequest()
		vsched.Settle()
		outs := w.take()
		if countType(outs, "A") != 1 || len(outs) != 1 {
			return "relogon:logon-request-not-sent", fmt.Sprintf("LogonRequest after a completed logout (%s): outs=[%s]", c.Relogon, outsStr(outs))
		}
		w.in(w.msg("A", "98=0", "108=30"))
		if !w.s.IsLogged() || w.logonEv != 2 {
			return "relogon:not-logged-on", fmt.Sprintf("IsLogged=%v logon events=%d", w.s.IsLogged(), w.logonEv)
		}
		return "", ""
	}
	lo, hi := 5, 30
	if c.Limits != "" {
		fmt.Sscanf(c.Limits, "%d..%d", &lo, &hi)
	}
	w := newWorld(wcfg{Role: "acc", Buf: 10, HbMin: lo, HbMax: hi, MinimalTags: c.Minimal})
	fields := []string{}
	if c.Method != "" {
		fields = append(fields, "98="+c.Method)
	}
	fields = append(fields, "108="+c.HB)
	w.in(w.msg("A", fields...))
	outs := w.take()
	hb, err := strconv.Atoi(c.HB)
	acceptable := err == nil && hb >= lo && hb <= hi && c.Method == "0"
	det := func(f string, a ...any) string {
		return fmt.Sprintf(f, a...) + fmt.Sprintf(" | Logon 108=%s 98=%q minimal-tags=%v IsLogged=%v outs=[%s]", c.HB, c.Method, c.Minimal, w.s.IsLogged(), outsStr(outs))
	}
	if acceptable {
		if !w.s.IsLogged() || len(outs) == 0 || mtype(outs[0].Msg) != "A" {
			return "sweep:acceptable-logon-not-accepted", det("")
		}
		return "", ""
	}
	if prop == "C06" {
		if w.s.IsLogged() {
			return "sweep:logged-after-logon-outside-limits", det("limits %d..%d, allowed method 0", lo, hi)
		}
		if len(outs) != 1 || mtype(outs[0].Msg) != "3" {
			return "sweep:refused-logon-not-answered-by-one-reject", det("")
		}
		if ref, _ := get(outs[0].Msg, "45"); ref != "1" {
			return "sweep:reject-wrong-refseqnum", det("RefSeqNum=%s want 1", ref)
		}
		return "", ""
	}
	// C07: whatever follows, the refused peer sees nothing but Logon / Logout / Reject
	sleepFor(95)
	settle()
	if !w.runDone {
		w.in(w.msg("1", "112=after-refusal"))
	}
	for _, o := range append(outs, w.take()...) {
		if t := mtype(o.Msg); t != "A" && t != "5" && t != "3" {
			return "sweep:pre-logon->" + typeName(t), det("message type %s sent to a peer whose Logon was refused", t)
		}
	}
	if w.s.IsLogged() {
		return "sweep:pre-logon->logged", det("")
	}
	return "", ""
}

func runLogonSweep(R *vlib.Out, prop string) {
	one := func(c sweepCase) {
		R.Eval()
		sig, d, steps := execBody(func() (string, string) { return sweepRun(prop, c) })
		R.Transitions += int64(steps)
		key := fmt.Sprintf("sweep/%s/%q/%v/%s/%s", c.HB, c.Method, c.Minimal, c.Limits, c.Relogon)
		R.State(key)
		R.ClassU(key)
		R.Outcome("sweep")
		if sig != "" {
			R.Violate(sig, d, c)
		}
	}
	if *vlib.ReplayPath != "" {
		var c sweepCase
		vlib.LoadReplay(&c)
		one(c)
		return
	}
	unit := 0
	if prop == "C06" {
		for _, how := range []string{"peer", "local", "shared-options"} {
			unit++
			if vlib.Mine(unit) {
				one(sweepCase{Scenario: "logon-sweep", Relogon: how})
			}
		}
	}
	// limits that admit exactly one interval (Min = Max)
	for _, lim := range []string{"30..30", "1..1"} {
		for _, hb := range []string{"0", "1", "2", "29", "30", "31"} {
			unit++
			if vlib.Mine(unit) {
				one(sweepCase{Scenario: "logon-sweep", HB: hb, Method: "0", Limits: lim})
			}
		}
	}
	for _, minimal := range []bool{false, true} {
		for _, method := range []string{"0", "1", ""} {
			for _, hb := range sweepHBs {
				unit++
				if !vlib.Mine(unit) {
					continue
				}
				one(sweepCase{Scenario: "logon-sweep", HB: hb, Method: method, Minimal: minimal})
			}
		}
	}
}
