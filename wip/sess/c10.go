package main

// C10 — a ResendRequest is answered with exactly the requested stored messages; gap detection at
// logon asks for the first missing number.  Exhaustive over: role × outbound history pattern
// (n = 1..N messages mixing the logon message, Heartbeat replies and application messages) ×
// every (b,e) in [0,n+2]² × (for small n) every ordered pair of requests; and every
// (stored incoming counter, Logon MsgSeqNum) pair.

import (
	"bytes"
	"fmt"
	"strconv"
	"strings"
	"time"

	simplefixgo "github.com/b2broker/simplefix-go"
	"github.com/b2broker/simplefix-go/fix"
	"github.com/b2broker/simplefix-go/storages/memory"
	fixgen "github.com/b2broker/simplefix-go/tests/fix44"
	"vlib"
	"vsched"
)

type c10Case struct {
	Role    string   `json:"role"`
	Pattern string   `json:"pattern"` // after the logon message: 'h' = Heartbeat reply to a TestRequest, 'a' = application message
	Reqs    [][2]int `json:"reqs"`
	Gap     *[2]int  `json:"gap,omitempty"` // (stored incoming counter, Logon seq)
	// In: the expected number comes from real inbound traffic instead of a planted counter: a history
	// of arrivals in every state that still receives ('i' application message, 'h' Heartbeat while
	// logged on; 't' the peer's answer to the session's own TestRequest; 'u' an application message
	// while that TestRequest is outstanding, then the answer), ended by a logout ('P' by the peer,
	// 'L' by the session with the peer's answer, 'M' the same with a message still in flight before
	// the answer); then the peer logs on again with number expected+D.
	In string `json:"in,omitempty"`
	D  int    `json:"d,omitempty"`
	// Restart: before that last Logon the peer starts its numbering over (a Logon numbered 1, two more
	// messages, a Logout): the expected number is again the one after the last message received, not the
	// highest ever seen.
	Restart bool `json:"restart,omitempty"`
}

func gapOracle(stored, seq int, outs []outMsg, logged bool) (string, string) {
	if !logged {
		return "gap:not-logged", outsStr(outs)
	}
	var rr [][]byte
	for _, o := range outs {
		if mtype(o.Msg) == "2" {
			rr = append(rr, o.Msg)
		}
	}
	want := seq > stored+1
	if want && len(rr) != 1 {
		return "gap:no-resend-request", fmt.Sprintf("stored=%d logon-seq=%d outs=%s", stored, seq, outsStr(outs))
	}
	if !want && len(rr) != 0 {
		return "gap:unexpected-resend-request", fmt.Sprintf("stored=%d logon-seq=%d outs=%s", stored, seq, outsStr(outs))
	}
	if want {
		b, _ := get(rr[0], "7")
		if b != strconv.Itoa(stored+1) {
			if b == strconv.Itoa(stored) {
				return "gap:begin=curr", fmt.Sprintf("stored=%d logon-seq=%d BeginSeqNo=%s want %d", stored, seq, b, stored+1)
			}
			return "gap:wrong-begin", fmt.Sprintf("stored=%d logon-seq=%d BeginSeqNo=%s want %d", stored, seq, b, stored+1)
		}
	}
	return "", ""
}

func c10History(c c10Case) (string, string) {
	hb := 30
	if strings.ContainsAny(c.In, "tu") {
		hb = 1
	}
	w := newWorld(wcfg{Role: c.Role, Buf: 20, HbMin: 1, HbMax: 30, HbInt: hb, SeqReset: strings.Contains(c.In, "s")})
	w.logonOK(hb)
	if !w.s.IsLogged() {
		return "setup:not-logged", ""
	}
	probes := 0
	lastCounted := 0
	var alts []int // other values of "last number received" a session may hold after a SequenceReset (see below)
	for i, p := range c.In {
		switch p {
		case 'i':
			alts = nil
			w.in(w.msg("D", "11=in"+strconv.Itoa(i)))
		case 'h':
			alts = nil
			w.in(w.msg("0"))
		case 't', 'u':
			alts = nil
			time.Sleep(2100 * time.Millisecond) // silence: the session probes the peer
			vsched.Settle()
			probes++
			if countType(w.outs, "1") < probes {
				return "setup:no-testrequest", outsStr(w.outs)
			}
			if p == 'u' {
				w.in(w.msg("D", "11=while-probed"))
			}
			w.in(w.msg("0", "112="+strconv.Itoa(probes)))
		case 's':
			// the peer skips three numbers with a SequenceReset (gap fill).  The library as pinned has no handler
			// for it (its number is not even counted); one that honours it expects NewSeqNo next.  Either view is
			// accepted: the last number received is k-1, k or NewSeqNo-1 - never anything else
			k := w.nextIn
			if alts == nil {
				lastCounted = k - 1
			}
			w.in(w.msg("4", "123=Y", "36="+strconv.Itoa(k+4)))
			w.nextIn = k + 4
			alts = []int{lastCounted, k - 1, k}
		case 'X':
			// the connection ends without a logout; the next session works on the same store
			w.h.Stop()
			vsched.Settle()
			nextIn := w.nextIn
			w = newWorld(wcfg{Role: c.Role, Buf: 20, HbMin: 1, HbMax: 30, HbInt: hb, SeqReset: strings.Contains(c.In, "s"), Store: w.st})
			w.nextIn = nextIn
		case 'P':
			alts = nil // (a message with a number of its own followed the SequenceReset)
			w.in(w.msg("5"))
		case 'L', 'M':
			_ = w.s.Logout()
			vsched.Settle()
			if p == 'M' {
				w.in(w.msg("D", "11=in-flight"))
			}
			w.in(w.msg("5"))
		}
	}
	if w.s.IsLogged() && !strings.HasSuffix(c.In, "X") {
		return "setup:still-logged-after-logout", ""
	}
	if w.ctxDone {
		return "setup:session-ended", ""
	}
	if c.Restart {
		w.nextIn = 1
		w.in(w.msg("A", "98=0", "108="+strconv.Itoa(hb)))
		if !w.s.IsLogged() {
			return "setup:restart-logon-not-accepted", outsStr(w.outs)
		}
		w.in(w.msg("D", "11=after-restart"))
		w.in(w.msg("0"))
		w.in(w.msg("5"))
		if w.s.IsLogged() {
			return "setup:still-logged-after-logout", ""
		}
	}
	stored := w.nextIn - 1 // every message of the history was received
	seq := stored + 1 + c.D
	w.take()
	w.in(rawFrom(w.peer, w.self, "A", seq, "98=0", "108="+strconv.Itoa(hb)))
	outs := w.take()
	sig, d := gapOracle(stored, seq, outs, w.s.IsLogged())
	for _, a := range alts {
		if sig == "" {
			break
		}
		if s2, _ := gapOracle(a, seq, outs, w.s.IsLogged()); s2 == "" {
			sig = ""
		}
	}
	if sig != "" {
		sig = "history-" + sig
	}
	return sig, d
}

// c10Shared: two sessions of one acceptor on one store (the bundled store keeps one counter and one message log
// for all of them).  Session A is in the middle of answering a ResendRequest - its peer reads slowly, the
// outgoing queue is full - when session B answers one of its own; then A's peer reads on.  Each gets exactly the
// messages of its own range, byte-identical.
func c10Shared(c c10Case) (string, string) {
	st := memory.NewStorage()
	wA := newWorld(wcfg{Role: "acc", Buf: 1, HbMin: 1, HbMax: 60, Store: st})
	wA.logonOK(30) // number 1
	for i := 0; i < 3; i++ {
		_ = wA.s.Send(fixgen.NewMarketDataRequest().SetMDReqID("A" + strconv.Itoa(i))) // 2,3,4
		vsched.Settle()
	}
	wB := newWorld(wcfg{Role: "acc", Buf: 10, HbMin: 1, HbMax: 60, Store: st})
	wB.logonOK(30) // number 5
	for i := 0; i < 3; i++ {
		_ = wB.s.Send(fixgen.NewMarketDataRequest().SetMDReqID("B" + strconv.Itoa(i))) // 6,7,8
		vsched.Settle()
	}
	firstA, firstB := append([]outMsg{}, wA.outs...), append([]outMsg{}, wB.outs...)
	if len(firstA) != 4 || len(firstB) != 4 || seqOf(firstA[3].Msg) != 4 || seqOf(firstB[0].Msg) != 5 {
		return "setup:shared-numbering", fmt.Sprintf("A=[%s] B=[%s]", outsStr(firstA), outsStr(firstB))
	}
	wA.take()
	wB.take()
	wA.hold = true
	wA.in(wA.msg("2", "7=1", "16=4")) // A's dispatch task gets as far as the queue lets it
	wB.in(wB.msg("2", "7=5", "16=8"))
	wA.hold = false
	wA.release <- struct{}{}
	vsched.Settle()
	time.Sleep(time.Second)
	vsched.Settle()
	for _, x := range []struct {
		name  string
		first []outMsg
		got   []outMsg
	}{{"A", firstA, wA.take()}, {"B", firstB, wB.take()}} {
		if len(x.got) != 4 {
			return "shared-store:resend-incomplete", fmt.Sprintf("session %s was sent %d of 4 messages: %s", x.name, len(x.got), outsStr(x.got))
		}
		for i, o := range x.got {
			if !bytes.Equal(o.Msg, x.first[i].Msg) {
				return "shared-store:resend-not-the-requested-message", fmt.Sprintf("session %s, position %d: got %s, first transmission was %s", x.name, i, show(o.Msg), show(x.first[i].Msg))
			}
		}
	}
	return "", ""
}

func execBody(body func() (string, string)) (sig, detail string, steps int) {
	res := vsched.Run(vsched.Options{StrictTime: true, MaxSteps: 300000}, func() { sig, detail = body() })
	steps = res.Steps
	if res.Panic != "" {
		return "panic-in-task:" + res.PanicTask, res.Panic, steps
	}
	if res.Capped {
		return "livelock-or-step-cap", fmt.Sprint("steps ", res.Steps), steps
	}
	if res.MainBlocked {
		// nothing was enabled any more and no timer pending while the scenario was still inside a call
		return "call-never-returned", "the scenario's main task is blocked for good in " + res.MainOp + leakedStr(res.Leaked), steps
	}
	return
}

func leakedStr(ls []vsched.Leak) string {
	s := ""
	for i, l := range ls {
		if i == 6 {
			s += " ..."
			break
		}
		s += fmt.Sprintf("; task %s blocked in %s on object %d", l.Name, l.Op, l.Obj)
	}
	return s
}

var c10Resent int // retransmissions observed in the last run (outcome evidence)

func c10Run(c c10Case) (string, string) {
	c10Resent = 0
	if c.Pattern == "shared-store" {
		return c10Shared(c)
	}
	if c.In != "" {
		return c10History(c)
	}
	hb := 30
	if strings.Contains(c.Pattern, "p") {
		hb = 1 // periodic heartbeats enter the outbound history (virtual time passes)
	}
	wc := wcfg{Role: c.Role, Buf: 20, HbMin: 1, HbMax: 30, HbInt: hb}
	if strings.Contains(c.Pattern, "r") {
		// an application filter registered before the session exists: it runs in front of the session's
		// store-before-send hook and refuses the messages marked for it, which have taken a number by then
		wc.PreSession = func(h *simplefixgo.DefaultHandler) {
			h.HandleOutgoing(simplefixgo.AllMsgTypes, func(m simplefixgo.SendingMessage) bool {
				r, ok := m.(*fixgen.MarketDataRequest)
				return !ok || !strings.HasPrefix(r.MDReqID(), "refuse-")
			})
		}
	}
	base := 0
	if strings.HasPrefix(c.Pattern, "M") {
		// a long-lived counter store: the logon message is number 999,998, the history crosses a million (six
		// and seven digits; 999999 is a number like any other)
		base = 999997
		st := memory.NewStorage()
		_ = st.SetSeqNum(fix.StorageID{Side: fix.Outgoing}, base)
		wc.Store = st
	}
	if strings.HasPrefix(c.Pattern, "k") {
		// a store that keeps counterparties apart
		ks := newKeyedStore()
		wc.CS, wc.MS = ks, ks
	}
	if strings.HasPrefix(c.Pattern, "m") {
		// an application handler that re-stamps every outgoing message (registered after the session's own hooks,
		// before the session is started): what it writes is part of what was transmitted, and of what is
		// transmitted again
		wc.PreRun = func(w *world) {
			w.h.HandleOutgoing(simplefixgo.AllMsgTypes, func(m simplefixgo.SendingMessage) bool {
				m.HeaderBuilder().SetFieldSendingTime("20240101-00:00:59.999")
				return true
			})
		}
	}
	w := newWorld(wc)
	if c.Gap != nil {
		_ = w.st.SetSeqNum(fix.StorageID{Side: fix.Incoming}, c.Gap[0])
		w.take()
		seq := c.Gap[1]
		w.in(rawFrom(w.peer, w.self, "A", seq, "98=0", "108="+strconv.Itoa(hb)))
		outs := w.take()
		return gapOracle(c.Gap[0], seq, outs, w.s.IsLogged())
	}
	// logon, then the outbound history
	if strings.HasPrefix(c.Pattern, "g") {
		// the peer's Logon is ahead of the expected number: the session answers and then sends its own
		// ResendRequest, which takes outbound number 2 and belongs to the sent history like any message
		w.nextIn = 5
	}
	w.logonOK(hb)
	for i, p := range c.Pattern {
		switch p {
		case 'h':
			w.in(w.msg("1", "112=R"+strconv.Itoa(i)))
		case 'a':
			_ = w.s.Send(fixgen.NewMarketDataRequest().SetMDReqID("req-" + strconv.Itoa(i)))
			vsched.Settle()
		case 'r':
			_ = w.s.Send(fixgen.NewMarketDataRequest().SetMDReqID("refuse-" + strconv.Itoa(i)))
			vsched.Settle()
		case 'p':
			// one heartbeat period of silence: the session's own timer emits a Heartbeat (and, after
			// two periods without inbound traffic, a TestRequest) - both are part of the sent history
			time.Sleep(1100 * time.Millisecond)
			vsched.Settle()
		}
	}
	if !w.s.IsLogged() && countType(w.outs, "1") == 0 {
		return "setup:not-logged", "" // (IsLogged is false by design while a TestRequest of the session is outstanding)
	}
	first := append([]outMsg{}, w.outs...) // first transmissions, numbered 1..n (a refused message leaves its number unused)
	n := len(first) + strings.Count(c.Pattern, "r")
	if w.ctxDone {
		return "", "" // silent-peer rule ended the session during the history: nothing to resend to
	}
	sent := make([]outMsg, n)
	have := make([]bool, n+1)
	for _, o := range first {
		k := seqOf(o.Msg) - base
		if k < 1 || k > n || have[k] {
			return "setup:numbering", fmt.Sprintf("first transmissions carry %d twice or outside 1..%d", k, n)
		}
		sent[k-1], have[k] = o, true
	}
	if !strings.ContainsAny(c.Pattern, "pgmkM") {
		// number 1 is the logon message, letter i of the pattern takes number i+2; a refused message leaves its number unused
		for i := range c.Pattern {
			if have[i+2] != (c.Pattern[i] != 'r') {
				return "setup:numbering", fmt.Sprintf("pattern %q: number %d used=%v", c.Pattern, i+2, have[i+2])
			}
		}
	}
	w.take()
	for _, be := range c.Reqs {
		b, e := be[0], be[1]
		ab, ae := b, e
		if base > 0 {
			if b > 0 {
				ab = b + base
			}
			if e > 0 {
				ae = e + base
			}
		}
		w.in(w.msg("2", "7="+strconv.Itoa(ab), "16="+strconv.Itoa(ae)))
		outs := w.take()
		hi := e
		if e == 0 {
			hi = n
		}
		exact := b >= 1 && b <= hi && hi <= n
		for k := b; exact && k <= hi; k++ {
			exact = have[k] // a range that covers a number nothing was sent under: only the sub-sequence rule applies
		}
		// whatever is sent must be a sub-sequence of the recorded range b..hi, byte-identical, ascending
		last := 0
		for _, o := range outs {
			q := seqOf(o.Msg) - base
			if mtype(o.Msg) == "3" && q > n {
				continue // a fresh Reject (own new number) is not a retransmission
			}
			if q < 1 || q > n || !have[q] || !bytes.Equal(sent[q-1].Msg, o.Msg) {
				return "resend:not-a-recorded-message", fmt.Sprintf("n=%d (b,e)=(%d,%d) got %s", n, b, e, show(o.Msg))
			}
			if q < b || q > hi {
				return "resend:outside-range", fmt.Sprintf("n=%d (b,e)=(%d,%d) retransmitted %d", n, b, e, q)
			}
			if q <= last {
				return "resend:not-ascending", fmt.Sprintf("n=%d (b,e)=(%d,%d) %d after %d", n, b, e, q, last)
			}
			last = q
			c10Resent++
		}
		if exact {
			cnt := 0
			for _, o := range outs {
				if seqOf(o.Msg)-base <= n {
					cnt++
				}
			}
			if cnt != hi-b+1 {
				if e == 0 {
					return "range:e=0", fmt.Sprintf("n=%d (b,e)=(%d,0): %d of %d messages retransmitted", n, b, cnt, hi-b+1)
				}
				return "resend:incomplete", fmt.Sprintf("n=%d (b,e)=(%d,%d): %d of %d messages retransmitted", n, b, e, cnt, hi-b+1)
			}
		}
		// the session keeps sending new messages numbered after n (retransmissions consume no number)
	}
	return "", ""
}

func runC10(R *vlib.Out) {
	if *vlib.ReplayPath != "" {
		var c c10Case
		vlib.LoadReplay(&c)
		R.Eval()
		if sig, d, _ := execBody(func() (string, string) { return c10Run(c) }); sig != "" {
			R.Violate(sig, d, c)
		}
		return
	}
	maxN, pairN := 4, 2
	if *vlib.Tier == "thorough" {
		maxN, pairN = 6, 4
	}
	R.Bounds["max_outbound_history"] = maxN + 1
	R.Bounds["pairs_of_requests_up_to_history"] = pairN + 1
	unit := 0
	try := func(c c10Case) bool {
		unit++
		if !vlib.Mine(unit) {
			return true
		}
		if vlib.Expired() {
			R.Cap("deadline")
			return false
		}
		R.Eval()
		sig, d, steps := execBody(func() (string, string) { return c10Run(c) })
		R.Transitions += int64(steps)
		R.State(fmt.Sprintf("%s/%s/%v/%v/%s/%d/%v", c.Role, c.Pattern, c.Reqs, c.Gap, c.In, c.D, c.Restart))
		R.ClassU(fmt.Sprintf("%s/%s/%v/%v/%s/%d/%v", c.Role, c.Pattern, c.Reqs, c.Gap, c.In, c.D, c.Restart))
		R.Sample(5, c)
		if sig != "" {
			R.Violate(sig, fmt.Sprintf("%+v: %s", c, d), c)
		} else if c.In != "" {
			R.Outcome(fmt.Sprintf("history gap d=%d ok", c.D))
		} else if c.Gap != nil {
			R.Outcome(fmt.Sprintf("gap stored=%d logon=%d ok", c.Gap[0], c.Gap[1]))
		} else {
			R.Outcome(fmt.Sprintf("requests=%d retransmitted=%d", len(c.Reqs), c10Resent))
		}
		return true
	}
	if !try(c10Case{Role: "acc", Pattern: "shared-store"}) {
		return
	}
	for _, role := range []string{"acc", "ini"} {
		// gap detection: every (stored, logon seq)
		for st := 0; st <= 4; st++ {
			for q := 1; q <= 6; q++ {
				if !try(c10Case{Role: role, Gap: &[2]int{st, q}}) {
					return
				}
			}
		}
		// gap detection against a counter produced by real inbound histories
		histN := 2
		if *vlib.Tier == "thorough" {
			histN = 4
		}
		var ins []string
		var genIn func(p string)
		genIn = func(p string) {
			for _, end := range []string{"P", "L", "M"} {
				ins = append(ins, p+end)
			}
			if len(p) == histN {
				return
			}
			for _, x := range []string{"i", "h", "t", "u"} {
				genIn(p + x)
			}
		}
		genIn("")
		// the connection simply ends (no logout), in particular right after a SequenceReset of the peer; the next
		// session on the same store detects the gap from what was received
		for _, in := range []string{"X", "iX", "hX", "sX", "isX", "ssX", "siX"} {
			for _, d := range []int{0, 1, 3} {
				if !try(c10Case{Role: role, In: in, D: d}) {
					return
				}
			}
		}
		for _, in := range ins {
			for _, d := range []int{0, 1, 3} {
				if !try(c10Case{Role: role, In: in, D: d}) {
					return
				}
				if strings.Count(in, "i")+strings.Count(in, "h") >= 1 && !try(c10Case{Role: role, In: in, D: d, Restart: true}) {
					return
				}
			}
		}
		var pats []string
		var gen func(p string)
		gen = func(p string) {
			pats = append(pats, p)
			if len(p) == maxN {
				return
			}
			gen(p + "h")
			gen(p + "a")
			if strings.Count(p, "p") < 2 {
				gen(p + "p")
			}
		}
		gen("")
		for _, p := range append([]string{}, pats...) {
			if len(p) < maxN {
				pats = append(pats, "g"+p)
			}
		}
		for _, p := range append([]string{}, pats...) {
			if len(p) <= 3 && !strings.ContainsAny(p, "pg") {
				pats = append(pats, "m"+p, "k"+p)
			}
		}
		pats = append(pats, "Maaa", "Mhah")
		// one refused application message at every position of every short history of replies and application
		// messages: its number stays unused, every other message is found under the number it was sent with
		for _, p := range append([]string{}, pats...) {
			if len(p) < maxN && !strings.ContainsAny(p, "pg") {
				for k := 0; k <= len(p); k++ {
					pats = append(pats, p[:k]+"r"+p[k:])
				}
			}
		}
		// long ranges (an implementation that fetches or sends a range in pages has its boundaries beyond 100)
		for _, hl := range []int{130, 260} {
			if hl > 130 && *vlib.Tier != "thorough" {
				continue
			}
			long := strings.Repeat("a", hl-1) // the logon message + hl-1 application messages
			for _, be := range [][2]int{{5, 125}, {1, 0}, {1, hl}, {1, 100}, {1, 101}, {2, 102}, {30, hl}, {100, 101}, {101, 101}, {29, 129}, {1, hl + 1}, {hl - 100, 0}} {
				if !try(c10Case{Role: role, Pattern: long, Reqs: [][2]int{be}}) {
					return
				}
			}
		}
		for _, p := range pats {
			n := len(p) + 1
			for b := 0; b <= n+2; b++ {
				for e := 0; e <= n+2; e++ {
					if !try(c10Case{Role: role, Pattern: p, Reqs: [][2]int{{b, e}}}) {
						return
					}
					if len(p) <= pairN {
						for b2 := 0; b2 <= n+1; b2++ {
							for e2 := 0; e2 <= n+1; e2++ {
								if !try(c10Case{Role: role, Pattern: p, Reqs: [][2]int{{b, e}, {b2, e2}}}) {
									return
								}
							}
						}
					}
				}
			}
		}
	}
}
