package main

// C10 — a ResendRequest is answered with exactly the requested stored messages; gap detection at
// logon asks for the first missing number.  Exhaustive over: role × outbound history pattern
// (n = 1..N messages mixing the logon message, Heartbeat replies and application messages) ×
// every (b,e) in [0,n+2]² × (for small n) every ordered pair of requests; and every
// (stored incoming counter, Logon MsgSeqNum) pair.

import (
	"bytes"
	"fmt"
	"strconv"
	"strings"
	"time"

	"github.com/b2broker/simplefix-go/fix"
	fixgen "github.com/b2broker/simplefix-go/tests/fix44"
	"vlib"
	"vsched"
)

type c10Case struct {
	Role    string   `json:"role"`
	Pattern string   `json:"pattern"` // after the logon message: 'h' = Heartbeat reply to a TestRequest, 'a' = application message
	Reqs    [][2]int `json:"reqs"`
	Gap     *[2]int  `json:"gap,omitempty"` // (stored incoming counter, Logon seq)
}

func execBody(body func() (string, string)) (sig, detail string, steps int) {
	res := vsched.Run(vsched.Options{StrictTime: true, MaxSteps: 300000}, func() { sig, detail = body() })
	steps = res.Steps
	if res.Panic != "" {
		return "panic-in-task:" + res.PanicTask, res.Panic, steps
	}
	if res.Capped {
		return "livelock-or-step-cap", fmt.Sprint("steps ", res.Steps), steps
	}
	return
}

var c10Resent int // retransmissions observed in the last run (outcome evidence)

func c10Run(c c10Case) (string, string) {
	c10Resent = 0
	hb := 30
	if strings.Contains(c.Pattern, "p") {
		hb = 1 // periodic heartbeats enter the outbound history (virtual time passes)
	}
	w := newWorld(wcfg{Role: c.Role, Buf: 20, HbMin: 1, HbMax: 30, HbInt: hb})
	if c.Gap != nil {
		_ = w.st.SetSeqNum(fix.StorageID{Side: fix.Incoming}, c.Gap[0])
		w.take()
		seq := c.Gap[1]
		w.in(rawFrom(w.peer, w.self, "A", seq, "98=0", "108="+strconv.Itoa(hb)))
		outs := w.take()
		if !w.s.IsLogged() {
			return "gap:not-logged", outsStr(outs)
		}
		var rr [][]byte
		for _, o := range outs {
			if mtype(o.Msg) == "2" {
				rr = append(rr, o.Msg)
			}
		}
		want := seq > c.Gap[0]+1
		if want && len(rr) != 1 {
			return "gap:no-resend-request", fmt.Sprintf("stored=%d logon-seq=%d outs=%s", c.Gap[0], seq, outsStr(outs))
		}
		if !want && len(rr) != 0 {
			return "gap:unexpected-resend-request", fmt.Sprintf("stored=%d logon-seq=%d outs=%s", c.Gap[0], seq, outsStr(outs))
		}
		if want {
			b, _ := get(rr[0], "7")
			if b != strconv.Itoa(c.Gap[0]+1) {
				if b == strconv.Itoa(c.Gap[0]) {
					return "gap:begin=curr", fmt.Sprintf("stored=%d logon-seq=%d BeginSeqNo=%s want %d", c.Gap[0], seq, b, c.Gap[0]+1)
				}
				return "gap:wrong-begin", fmt.Sprintf("stored=%d logon-seq=%d BeginSeqNo=%s want %d", c.Gap[0], seq, b, c.Gap[0]+1)
			}
		}
		return "", ""
	}
	// logon, then the outbound history
	if strings.HasPrefix(c.Pattern, "g") {
		// the peer's Logon is ahead of the expected number: the session answers and then sends its own
		// ResendRequest, which takes outbound number 2 and belongs to the sent history like any message
		w.nextIn = 5
	}
	w.logonOK(hb)
	for i, p := range c.Pattern {
		switch p {
		case 'h':
			w.in(w.msg("1", "112=R"+strconv.Itoa(i)))
		case 'a':
			_ = w.s.Send(fixgen.NewMarketDataRequest().SetMDReqID("req-" + strconv.Itoa(i)))
			vsched.Settle()
		case 'p':
			// one heartbeat period of silence: the session's own timer emits a Heartbeat (and, after
			// two periods without inbound traffic, a TestRequest) - both are part of the sent history
			time.Sleep(1100 * time.Millisecond)
			vsched.Settle()
		}
	}
	if !w.s.IsLogged() && countType(w.outs, "1") == 0 {
		return "setup:not-logged", "" // (IsLogged is false by design while a TestRequest of the session is outstanding)
	}
	sent := append([]outMsg{}, w.outs...) // first transmissions, numbered 1..n
	n := len(sent)
	if w.ctxDone {
		return "", "" // silent-peer rule ended the session during the history: nothing to resend to
	}
	for i, o := range sent {
		if seqOf(o.Msg) != i+1 {
			return "setup:numbering", fmt.Sprintf("message %d carries %d", i+1, seqOf(o.Msg))
		}
	}
	w.take()
	for _, be := range c.Reqs {
		b, e := be[0], be[1]
		w.in(w.msg("2", "7="+strconv.Itoa(b), "16="+strconv.Itoa(e)))
		outs := w.take()
		hi := e
		if e == 0 {
			hi = n
		}
		exact := b >= 1 && b <= hi && hi <= n
		// whatever is sent must be a sub-sequence of the recorded range b..hi, byte-identical, ascending
		last := 0
		for _, o := range outs {
			q := seqOf(o.Msg)
			if mtype(o.Msg) == "3" && q > n {
				continue // a fresh Reject (own new number) is not a retransmission
			}
			if q < 1 || q > n || !bytes.Equal(sent[q-1].Msg, o.Msg) {
				return "resend:not-a-recorded-message", fmt.Sprintf("n=%d (b,e)=(%d,%d) got %s", n, b, e, show(o.Msg))
			}
			if q < b || q > hi {
				return "resend:outside-range", fmt.Sprintf("n=%d (b,e)=(%d,%d) retransmitted %d", n, b, e, q)
			}
			if q <= last {
				return "resend:not-ascending", fmt.Sprintf("n=%d (b,e)=(%d,%d) %d after %d", n, b, e, q, last)
			}
			last = q
			c10Resent++
		}
		if exact {
			cnt := 0
			for _, o := range outs {
				if seqOf(o.Msg) <= n {
					cnt++
				}
			}
			if cnt != hi-b+1 {
				if e == 0 {
					return "range:e=0", fmt.Sprintf("n=%d (b,e)=(%d,0): %d of %d messages retransmitted", n, b, cnt, hi-b+1)
				}
				return "resend:incomplete", fmt.Sprintf("n=%d (b,e)=(%d,%d): %d of %d messages retransmitted", n, b, e, cnt, hi-b+1)
			}
		}
		// the session keeps sending new messages numbered after n (retransmissions consume no number)
	}
	return "", ""
}

func runC10(R *vlib.Out) {
	if *vlib.ReplayPath != "" {
		var c c10Case
		vlib.LoadReplay(&c)
		R.Eval()
		if sig, d, _ := execBody(func() (string, string) { return c10Run(c) }); sig != "" {
			R.Violate(sig, d, c)
		}
		return
	}
	maxN, pairN := 4, 2
	if *vlib.Tier == "thorough" {
		maxN, pairN = 6, 4
	}
	R.Bounds["max_outbound_history"] = maxN + 1
	R.Bounds["pairs_of_requests_up_to_history"] = pairN + 1
	unit := 0
	try := func(c c10Case) bool {
		unit++
		if !vlib.Mine(unit) {
			return true
		}
		if vlib.Expired() {
			R.Cap("deadline")
			return false
		}
		R.Eval()
		sig, d, steps := execBody(func() (string, string) { return c10Run(c) })
		R.Transitions += int64(steps)
		R.State(fmt.Sprintf("%s/%s/%v/%v", c.Role, c.Pattern, c.Reqs, c.Gap))
		R.ClassU(fmt.Sprintf("%s/%s/%v/%v", c.Role, c.Pattern, c.Reqs, c.Gap))
		R.Sample(5, c)
		if sig != "" {
			R.Violate(sig, fmt.Sprintf("%+v: %s", c, d), c)
		} else if c.Gap != nil {
			R.Outcome(fmt.Sprintf("gap stored=%d logon=%d ok", c.Gap[0], c.Gap[1]))
		} else {
			R.Outcome(fmt.Sprintf("requests=%d retransmitted=%d", len(c.Reqs), c10Resent))
		}
		return true
	}
	for _, role := range []string{"acc", "ini"} {
		// gap detection: every (stored, logon seq)
		for st := 0; st <= 4; st++ {
			for q := 1; q <= 6; q++ {
				if !try(c10Case{Role: role, Gap: &[2]int{st, q}}) {
					return
				}
			}
		}
		var pats []string
		var gen func(p string)
		gen = func(p string) {
			pats = append(pats, p)
			if len(p) == maxN {
				return
			}
			gen(p + "h")
			gen(p + "a")
			if strings.Count(p, "p") < 2 {
				gen(p + "p")
			}
		}
		gen("")
		for _, p := range append([]string{}, pats...) {
			if len(p) < maxN {
				pats = append(pats, "g"+p)
			}
		}
		for _, p := range pats {
			n := len(p) + 1
			for b := 0; b <= n+2; b++ {
				for e := 0; e <= n+2; e++ {
					if !try(c10Case{Role: role, Pattern: p, Reqs: [][2]int{{b, e}}}) {
						return
					}
					if len(p) <= pairN {
						for b2 := 0; b2 <= n+1; b2++ {
							for e2 := 0; e2 <= n+1; e2++ {
								if !try(c10Case{Role: role, Pattern: p, Reqs: [][2]int{{b, e}, {b2, e2}}}) {
									return
								}
							}
						}
					}
				}
			}
		}
	}
}
