package main

// History explorer (S-hist): depth-first enumeration of all event sequences over a finite
// alphabet up to a depth bound.  Every history is replayed from scratch on fresh real objects
// under the controlled scheduler with strict virtual time; each event is followed by Settle(),
// i.e. the complete reaction of the system is observed before the next event.

import (
	"fmt"
	"strings"

	"vlib"
	"vsched"
)

type event struct {
	Name string
	Do   func(w *world)
}

type monitor interface {
	// Step is called after each event has settled; it returns a violation signature ("" = fine).
	Step(w *world, ev event, outs []outMsg) (sig, detail string)
	Key() string // monitor state, part of the state fingerprint
}

type histCfg struct {
	Name     string
	World    func() *world
	Alphabet []event
	Depth    int
	NewMon   func(w *world) monitor
	Setup    func(w *world, m monitor) // unchecked prefix (e.g. a logon) applied before the enumerated part
	MaxSteps int
	// Leaf marks events that may stand only in the last two positions of a history of full depth (events
	// that, by the property under test, leave the state as it is: they are judged where they stand and as
	// the predecessor of one more event, but are not used to build up states).
	Leaf map[string]bool
}

type histReplay struct {
	Cfg    string   `json:"cfg"`
	Events []string `json:"events"`
}

// runHistory executes one history.  Only a violation at the LAST step is reported (a violation at
// an earlier step was reported by the shorter history); an earlier violation with an unknown
// signature cannot occur because such histories are never extended.
func runHistory(R *vlib.Out, c *histCfg, hist []int, record bool) (sig, detail string) {
	ms := c.MaxSteps
	if ms == 0 {
		ms = 300000
	}
	res := vsched.Run(vsched.Options{StrictTime: true, MaxSteps: ms}, func() {
		w := c.World()
		m := c.NewMon(w)
		if c.Setup != nil {
			c.Setup(w, m)
		}
		w.take()
		prevFp := ""
		if record {
			prevFp = m.Key() + "|" + w.fingerprint()
			R.State(c.Name + "|" + prevFp)
		}
		for i, k := range hist {
			ev := c.Alphabet[k]
			ev.Do(w)
			vsched.Settle()
			outs := w.take()
			if *vlib.Verbose {
				fmt.Printf("  step %d %s -> [%s] logged=%v t=%v\n", i, ev.Name, outsStr(outs), w.s.IsLogged(), vsched.NowOffset())
			}
			s, d := m.Step(w, ev, outs)
			if record {
				fp := m.Key() + "|" + w.fingerprint()
				R.State(c.Name + "|" + fp)
				// a distinct non-trivial case = a distinct abstract transition (state, event, state')
				R.ClassU(c.Name + "|" + prevFp + "|" + ev.Name + "|" + fp)
				if i == len(hist)-1 {
					R.Outcome(ev.Name + " -> [" + types(outs) + "]")
				}
				prevFp = fp
			}
			if i == len(hist)-1 {
				sig, detail = s, d
			}
		}
	})
	if res.Panic != "" {
		return "panic-in-task:" + res.PanicTask, res.Panic
	}
	if res.Capped {
		return "livelock-or-step-cap", fmt.Sprint("steps ", res.Steps)
	}
	if res.MainBlocked {
		return "call-never-returned", "the history's main task is blocked for good in " + res.MainOp + leakedStr(res.Leaked)
	}
	return
}

func histNames(c *histCfg, hist []int) []string {
	var s []string
	for _, k := range hist {
		s = append(s, c.Alphabet[k].Name)
	}
	return s
}

// exploreHist enumerates all histories of length 1..Depth.  Histories of length 1 are run by every
// shard (they decide pruning) but counted by shard 0 only; a longer history belongs to the shard
// selected by its first two events.  A history whose last step violates with an unknown signature
// is not extended.
func exploreHist(R *vlib.Out, c *histCfg) {
	na := len(c.Alphabet)
	own := func(h []int) bool {
		if len(h) == 1 {
			return *vlib.Shard == 0
		}
		return vlib.Mine(h[0]*na + h[1])
	}
	stop := false
	var rec func(hist []int)
	rec = func(hist []int) {
		if len(hist) == c.Depth || stop {
			return
		}
		for k := 0; k < na && !stop; k++ {
			if c.Leaf[c.Alphabet[k].Name] && len(hist) < c.Depth-2 {
				continue
			}
			h2 := append(append([]int{}, hist...), k)
			mine := own(h2)
			if len(h2) >= 2 && !mine {
				continue
			}
			if vlib.Expired() {
				R.Cap("deadline")
				stop = true
				return
			}
			sig, detail := runHistory(R, c, h2, mine)
			if mine {
				R.Eval()
				R.Transitions++
				if len(h2) == c.Depth {
					R.Sample(5, map[string]any{"cfg": c.Name, "history": histNames(c, h2)})
				}
			}
			if sig != "" {
				names := histNames(c, h2)
				known := vlib.Known(sig)
				if mine {
					known = R.Violate(sig, fmt.Sprintf("[%s] history %s: %s", c.Name, strings.Join(names, " ; "), detail), histReplay{c.Name, names})
				}
				if !known {
					continue
				}
			}
			rec(h2)
		}
	}
	rec(nil)
	R.Bounds["depth:"+c.Name] = c.Depth
	R.Bounds["alphabet:"+c.Name] = na
	if len(c.Leaf) > 0 {
		R.Bounds["leaf-events(last two positions only):"+c.Name] = len(c.Leaf)
	}
}

func replayHist(R *vlib.Out, cfgs []*histCfg) {
	var rp histReplay
	vlib.LoadReplay(&rp)
	for _, c := range cfgs {
		if c.Name != rp.Cfg {
			continue
		}
		var hist []int
		for _, n := range rp.Events {
			found := -1
			for k, e := range c.Alphabet {
				if e.Name == n {
					found = k
				}
			}
			if found < 0 {
				vlib.Fatal("replay: unknown event %q in cfg %s", n, c.Name)
			}
			hist = append(hist, found)
		}
		R.Eval()
		if sig, detail := runHistory(R, c, hist, false); sig != "" {
			R.Violate(sig, detail, rp)
		}
		return
	}
	vlib.Fatal("replay: unknown cfg %q", rp.Cfg)
}
