package main

// C20 — concurrent use of a session is free of data races.  The scenario of "intended use" runs
// under the controlled scheduler in the race-gate build (-race -tags racegate, DESIGN.md §2.6): the
// scheduler's hand-offs are invisible to the Go race detector while every program-level
// synchronisation (mutex, atomic, channel, context, wait group) is carried by a real primitive, so
// the detector judges exactly the library's own synchronisation on the schedule the explorer chose,
// for every schedule within the delay bound.  Reports are attributed to the execution after which
// the detector's log grew and reduced to a signature {library function A <-> library function B}.
//
// The harness below shares no unsynchronised state between its own tasks (results travel over
// channels), so a report whose two accesses are both outside the library is a harness bug and is
// reported as such.

import (
	"context"
	"errors"
	"fmt"
	"os"
	"regexp"
	"sort"
	"strings"
	"sync/atomic"
	"time"

	simplefixgo "github.com/b2broker/simplefix-go"
	"github.com/b2broker/simplefix-go/fix"
	"github.com/b2broker/simplefix-go/session"
	"github.com/b2broker/simplefix-go/storages/memory"
	fixgen "github.com/b2broker/simplefix-go/tests/fix44"
	"github.com/b2broker/simplefix-go/utils"
	"vlib"
	"vsched"
)

// messages the writer-loop stand-in took off the outgoing channel in the last run; atomic because the
// main tasks of consecutive executions are different goroutines whose ordering the detector cannot see
var c20Drained int64

func c20Body(role string, variant string) func() {
	return func() {
		var h *simplefixgo.DefaultHandler
		var s *session.Session
		mst := memory.NewStorage()
		var storeFails int32
		st := &flakyStore{Storage: mst, fail: &storeFails}
		peer, self := "CLI", "SRV"
		drained := make(chan int, 1)
		parentCtx, cancelParent := context.WithCancel(context.Background())
		defer cancelParent()
		var hold int32 // the writer-loop stand-in stops taking messages (a peer that no longer reads)
		size := 64
		if variant == "error-stop" {
			size = 0
		}
		vsched.Deterministic(func() {
			var err error
			if role == "ini" {
				peer, self = "SRV", "CLI"
				h = simplefixgo.NewInitiatorHandler(parentCtx, "35", size)
				s, err = session.NewInitiatorSession(h, opts(), &session.LogonSettings{
					TargetCompID: peer, SenderCompID: self, HeartBtInt: 1, EncryptMethod: "0", CloseTimeout: time.Second,
				}, st, st)
			} else {
				h = simplefixgo.NewAcceptorHandler(parentCtx, "35", size)
				s, err = session.NewAcceptorSession(opts(), h, &session.LogonSettings{
					LogonTimeout: 30 * time.Second, HeartBtLimits: &session.IntLimits{Min: 1, Max: 60}, CloseTimeout: time.Second,
				}, func(*session.LogonSettings) error { return nil }, st, st)
			}
			if err != nil {
				panic(err)
			}
			// the connection's writer loop: drains the outgoing channel
			go func() {
				n := 0
				for {
					if atomic.LoadInt32(&hold) == 1 {
						<-h.Context().Done()
						drained <- n
						return
					}
					select {
					case m, ok := <-h.Outgoing():
						if !ok {
							drained <- n
							return
						}
						if *vlib.Verbose {
							fmt.Fprintf(os.Stderr, "  [c20 %s/%s] %v wire: %s\n", role, variant, vsched.NowOffset(), show(m))
						}
						n++
					case <-h.Context().Done():
						drained <- n
						return
					}
				}
			}()
			_ = s.Run()
			go func() { _ = h.Run() }()
			vsched.Settle()
			if variant != "register-during-logon" {
				h.ServeIncoming(rawFrom(peer, self, "A", 1, "98=0", "108=1"))
				vsched.Settle()
			}
		})
		if variant == "register-during-logon" {
			// the application is still wiring up its callbacks when the peer's Logon arrives: the dispatch task
			// registers the session's own hooks (timers, counters) in the same pools at the same time, and
			// nothing but the pools' locks stands between the two
			reg := make(chan struct{}, 1)
			go func() {
				id := h.HandleIncoming("D", func([]byte) bool { return true })
				oid := h.HandleOutgoing("V", func(simplefixgo.SendingMessage) bool { return true })
				s.OnChangeState(utils.EventLogon, func() bool { return true })
				h.OnConnect(func() bool { return true })
				id2 := h.HandleIncoming(simplefixgo.AllMsgTypes, func([]byte) bool { return true })
				_ = h.RemoveIncomingHandler("D", id)
				_ = h.RemoveOutgoingHandler("V", oid)
				_ = h.RemoveIncomingHandler(simplefixgo.AllMsgTypes, id2)
				reg <- struct{}{}
			}()
			h.ServeIncoming(rawFrom(peer, self, "A", 1, "98=0", "108=1"))
			time.Sleep(300 * time.Millisecond)
			h.ServeIncoming(rawFrom(peer, self, "D", 2, "11=x"))
			_ = s.Send(fixgen.NewMarketDataRequest().SetMDReqID("m"))
			<-reg
			time.Sleep(1500 * time.Millisecond)
			vsched.Settle()
			h.Stop()
			atomic.StoreInt64(&c20Drained, int64(<-drained))
			vsched.Settle()
			return
		}
		if variant == "quick-relogon" {
			// Logon, Logout and the next Logon within the timers' first polling step: the second Logon
			// stops the first one's timers while their tasks have done nothing but start waiting
			vsched.Deterministic(func() {})
			time.Sleep(10 * time.Millisecond)
			h.ServeIncoming(rawFrom(peer, self, "5", 2))
			time.Sleep(10 * time.Millisecond)
			h.ServeIncoming(rawFrom(peer, self, "A", 3, "98=0", "108=1"))
			time.Sleep(2500 * time.Millisecond)
			h.ServeIncoming(rawFrom(peer, self, "0", 4, "112=1"))
			time.Sleep(1500 * time.Millisecond)
			vsched.Settle()
			h.Stop()
			atomic.StoreInt64(&c20Drained, int64(<-drained))
			vsched.Settle()
			return
		}
		done := make(chan struct{}, 8)
		// two application senders
		for g := 0; g < 2; g++ {
			g := g
			go func() {
				for i := 0; i < 2; i++ {
					_ = s.Send(fixgen.NewMarketDataRequest().SetMDReqID(fmt.Sprintf("g%d-%d", g, i)))
					time.Sleep(700 * time.Millisecond)
				}
				done <- struct{}{}
			}()
		}
		// state and logon queries from an application task
		go func() {
			for i := 0; i < 4; i++ {
				_ = s.IsLogged()
				time.Sleep(600 * time.Millisecond)
			}
			done <- struct{}{}
		}()
		// event-handler registration while events fire
		go func() {
			time.Sleep(900 * time.Millisecond)
			s.OnChangeState(utils.EventLogout, func() bool { return true })
			s.OnChangeState(utils.EventDisconnect, func() bool { return true })
			// handlers come and go while messages are dispatched
			id := h.HandleIncoming("D", func([]byte) bool { return true })
			oid := h.HandleOutgoing("V", func(simplefixgo.SendingMessage) bool { return true })
			time.Sleep(1700 * time.Millisecond)
			_ = h.RemoveIncomingHandler("D", id)
			_ = h.RemoveOutgoingHandler("V", oid)
			done <- struct{}{}
		}()
		// inbound traffic on the dispatch path (this task plays the connection's reader loop)
		seq := 2
		in := func(mt string, f ...string) {
			h.ServeIncoming(rawFrom(peer, self, mt, seq, f...))
			seq++
		}
		in("1", "112=ping")
		in("2", "7=1", "16=2")
		time.Sleep(750 * time.Millisecond)
		// everything sent so far is asked for again right after the senders' second round (700 ms), before
		// any timer has fired: the retransmission works on the stored message objects while nothing but
		// the library's own locks orders it after the application's sends
		in("2", "7=1", "16=0")
		time.Sleep(1250 * time.Millisecond) // the heartbeat timer expires (1.75 s)
		// ... and everything is asked for once more while the newest stored message is one the heartbeat
		// task sent: the retransmission reads the timer task's message objects, and the task goes on
		in("2", "7=1", "16=0")
		time.Sleep(500 * time.Millisecond) // (the test-request timer expires as well)
		in("0", "112=1")                   // the answer to the session's TestRequest
		in("D", "11=x")
		for i := 0; i < 4; i++ {
			<-done
		}
		switch variant {
		case "stop":
			_ = s.Stop()
			time.Sleep(300 * time.Millisecond)
			in("5")
		case "peer-logout":
			in("5")
			// the connection stays open: one period of silence while logged out (the test-request timer takes note
			// of it), then a message that draws no reply and changes no state
			time.Sleep(2200 * time.Millisecond)
			in("3", "45=1", "58=noted")
		case "failing-store":
			// the message store starts to fail: the session's own sends (heartbeats, replies) fail and are reported
			// to the application's error callback from the timer and dispatch tasks, while the peer logs out and
			// on again (state and settings change under the reporting tasks' feet)
			s.OnError(func(error) {})
			atomic.StoreInt32(&storeFails, 1)
			time.Sleep(1200 * time.Millisecond)
			in("1", "112=while-failing")
			in("5")
			time.Sleep(300 * time.Millisecond)
			in("A", "98=0", "108=1")
			time.Sleep(1300 * time.Millisecond)
			in("1", "112=again")
			atomic.StoreInt32(&storeFails, 0)
			time.Sleep(1200 * time.Millisecond)
		case "error-stop":
			// the connection ends by a read error while senders are waiting for a peer that no longer reads: what
			// Acceptor.serve / Initiator.Serve do then is StopWithError(err) and cancel the handler's context
			atomic.StoreInt32(&hold, 1)
			sdone := make(chan struct{}, 3)
			for g := 0; g < 2; g++ {
				g := g
				go func() {
					_ = s.Send(fixgen.NewMarketDataRequest().SetMDReqID(fmt.Sprintf("late-%d", g)))
					sdone <- struct{}{}
				}()
			}
			go func() {
				_ = h.SendRaw(rawFrom(self, peer, "0", 99))
				_ = h.SendRaw(rawFrom(self, peer, "0", 100))
				sdone <- struct{}{}
			}()
			time.Sleep(200 * time.Millisecond)
			h.StopWithError(errors.New("read tcp: connection reset by peer"))
			cancelParent()
			for i := 0; i < 3; i++ {
				<-sdone
			}
			time.Sleep(1500 * time.Millisecond)
			vsched.Settle()
			atomic.StoreInt64(&c20Drained, int64(<-drained))
			vsched.Settle()
			return
		case "relogon":
			// the peer logs out and on again on the same connection while the session's timers run
			in("5")
			time.Sleep(400 * time.Millisecond)
			go func() { _ = h.RemoveIncomingHandler("D", 0) }() // concurrent with the handlers the re-logon registers
			in("A", "98=0", "108=1")
			go func() { _ = s.Send(fixgen.NewMarketDataRequest().SetMDReqID("after-relogon")) }()
			time.Sleep(1500 * time.Millisecond)
		case "silent":
			time.Sleep(5 * time.Second) // TestRequest, then Disconnect: the session stops its handler
		}
		time.Sleep(3 * time.Second)
		vsched.Settle()
		h.Stop()
		atomic.StoreInt64(&c20Drained, int64(<-drained))
		vsched.Settle()
	}
}

var raceHdr = regexp.MustCompile(`(?m)^(Write|Read|Previous write|Previous read|Atomic write|Atomic read|Previous atomic write|Previous atomic read) at 0x[0-9a-f]+ by (main goroutine|goroutine \d+).*:$`)

// raceSigs parses race detector output into signatures.
func raceSigs(text string) (sigs []string, details map[string]string) {
	details = map[string]string{}
	for _, rep := range strings.Split(text, "WARNING: DATA RACE") {
		if !raceHdr.MatchString(rep) {
			continue
		}
		locs := raceHdr.FindAllStringIndex(rep, -1)
		var parts []string
		for i, l := range locs {
			end := len(rep)
			if i+1 < len(locs) {
				end = locs[i+1][0]
			} else if j := strings.Index(rep[l[1]:], "\n\n"); j >= 0 {
				end = l[1] + j
			}
			kind := "r"
			if strings.Contains(strings.ToLower(rep[l[0]:l[1]]), "write") {
				kind = "w"
			}
			parts = append(parts, kind+":"+firstLibFrame(rep[l[1]:end]))
		}
		if len(parts) != 2 {
			continue
		}
		sort.Strings(parts)
		sig := "race:" + parts[0] + "<->" + parts[1]
		if strings.Contains(parts[0], "(harness)") && strings.Contains(parts[1], "(harness)") {
			sig = "harness-race:" + parts[0] + "<->" + parts[1]
		}
		if _, ok := details[sig]; !ok {
			sigs = append(sigs, sig)
			d := rep
			if len(d) > 2500 {
				d = d[:2500]
			}
			details[sig] = d
		}
	}
	return
}

// firstLibFrame returns the innermost function of the library in a stack ("(harness)" if none).
func firstLibFrame(stack string) string {
	// an access made by the scheduling machinery itself is a defect of the harness, not of the library
	for _, line := range strings.Split(stack, "\n") {
		line = strings.TrimSpace(line)
		if line == "" || strings.HasPrefix(line, "/") || strings.HasPrefix(line, "runtime.") || strings.HasPrefix(line, "sync") {
			continue
		}
		if strings.HasPrefix(line, "vsched.") || strings.HasPrefix(line, "vsched/") {
			if !strings.HasPrefix(line, "vsched/atomic.") && !strings.HasPrefix(line, "vsched/sync.") {
				return "(harness)machinery:" + line
			}
		}
		break
	}
	for _, line := range strings.Split(stack, "\n") {
		line = strings.TrimSpace(line)
		if !strings.HasPrefix(line, "github.com/b2broker/simplefix-go") || strings.Contains(line, "/vharness") {
			continue
		}
		f := strings.TrimPrefix(line, "github.com/b2broker/simplefix-go")
		f = strings.TrimPrefix(f, "/")
		if i := strings.Index(f, "()"); i >= 0 {
			f = f[:i]
		}
		// closures: keep the enclosing function
		f = regexp.MustCompile(`\.func\d+(\.\d+)*$`).ReplaceAllString(f, "")
		if f == "" {
			continue
		}
		return f
	}
	return "(harness)"
}

func raceLogPath() string {
	for _, kv := range strings.Fields(os.Getenv("GORACE")) {
		if strings.HasPrefix(kv, "log_path=") {
			return kv[len("log_path="):] + "." + fmt.Sprint(os.Getpid())
		}
	}
	return ""
}

func readFrom(path string, off int64) (string, int64) {
	f, err := os.Open(path)
	if err != nil {
		return "", off
	}
	defer f.Close()
	st, _ := f.Stat()
	if st.Size() <= off {
		return "", off
	}
	buf := make([]byte, st.Size()-off)
	_, _ = f.ReadAt(buf, off)
	return string(buf), st.Size()
}

func c20Scenario(name string, p map[string]any) *schedScenario {
	role, variant := pstr(p, "role"), pstr(p, "variant")
	sc := &schedScenario{Name: "c20", Params: p, Strict: true, Delay: true, MaxSteps: 400000}
	sc.Body = c20Body(role, variant)
	logPath := raceLogPath()
	var off int64
	if logPath != "" {
		_, off = readFrom(logPath, 0)
	}
	sc.Check = func(r *vsched.Result) (string, string) {
		if logPath == "" {
			return "", ""
		}
		var txt string
		txt, off = readFrom(logPath, off)
		if txt == "" {
			return "", ""
		}
		sigs, det := raceSigs(txt)
		// report every signature of this execution; the first one is returned, the others recorded
		for i, s := range sigs {
			if i > 0 {
				vlib.R.Violate(s, det[s], schedReplay{"c20", p, nil, true, true})
			}
		}
		if len(sigs) == 0 {
			return "", ""
		}
		return sigs[0], det[sigs[0]]
	}
	sc.Outcome = func() string { return fmt.Sprintf("%s/%s outbound=%d", role, variant, atomic.LoadInt64(&c20Drained)) }
	return sc
}

func runC20(R *vlib.Out) {
	vsched.TrackStates = true // program points x object ids x timers; hashed inside //go:norace code
	if raceLogPath() == "" {
		vlib.Fatal("C20 needs the race-gate build and GORACE=log_path=...")
	}
	if !vsched.RaceGate {
		vlib.Fatal("C20 worker was not built with -tags racegate")
	}
	if *vlib.ReplayPath != "" {
		// a race is reported once per process: re-run the whole (small) exploration of that scenario
		var rp schedReplay
		vlib.LoadReplay(&rp)
		sc := c20Scenario(rp.Scenario, rp.Params)
		sc.Bound = 1
		exploreSched(R, sc)
		return
	}
	bound := 1
	if *vlib.Tier == "thorough" {
		bound = 2
	}
	var ps []map[string]any
	for _, role := range []string{"acc", "ini"} {
		for _, v := range []string{"stop", "peer-logout", "silent", "relogon", "quick-relogon", "register-during-logon", "error-stop", "failing-store"} {
			ps = append(ps, map[string]any{"role": role, "variant": v})
		}
	}
	for i, p := range ps {
		if vlib.Expired() {
			R.Cap("deadline")
			break
		}
		scenarioBudget = 4 * vlib.Remaining() / time.Duration(len(ps)-i) // most scenarios finish far below their share
		sc := c20Scenario("c20", p)
		sc.Bound = bound
		exploreSched(R, sc)
	}
	finishSched(R)
}

// flakyStore: the memory store, refusing to save while *fail is set (read atomically: the flag is the harness's).
type flakyStore struct {
	*memory.Storage
	fail *int32
}

func (f *flakyStore) Save(id fix.StorageID, m simplefixgo.SendingMessage, n int) error {
	if atomic.LoadInt32(f.fail) == 1 {
		return errors.New("store unavailable")
	}
	return f.Storage.Save(id, m, n)
}
