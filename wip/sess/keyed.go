package main

// A counter and message store that honours the StorageID it is given (the bundled memory store ignores the
// counterparty part): one memory store per (sender, target) pair.  A session that names its own traffic by
// different identifiers in different places finds nothing of what it stored.

import (
	simplefixgo "github.com/b2broker/simplefix-go"
	"github.com/b2broker/simplefix-go/fix"
	"github.com/b2broker/simplefix-go/storages/memory"
)

type keyedStore struct {
	parts map[[2]string]*memory.Storage
	keys  [][2]string // in order of first use (evidence)
}

func newKeyedStore() *keyedStore { return &keyedStore{parts: map[[2]string]*memory.Storage{}} }

func (k *keyedStore) part(id fix.StorageID) *memory.Storage {
	key := [2]string{id.Sender, id.Target}
	p, ok := k.parts[key]
	if !ok {
		p = memory.NewStorage()
		k.parts[key] = p
		k.keys = append(k.keys, key)
	}
	return p
}

func (k *keyedStore) GetNextSeqNum(id fix.StorageID) (int, error) {
	return k.part(id).GetNextSeqNum(id)
}
func (k *keyedStore) GetCurrSeqNum(id fix.StorageID) (int, error) {
	return k.part(id).GetCurrSeqNum(id)
}
func (k *keyedStore) ResetSeqNum(id fix.StorageID) error      { return k.part(id).ResetSeqNum(id) }
func (k *keyedStore) SetSeqNum(id fix.StorageID, n int) error { return k.part(id).SetSeqNum(id, n) }
func (k *keyedStore) Save(id fix.StorageID, m simplefixgo.SendingMessage, n int) error {
	return k.part(id).Save(id, m, n)
}
func (k *keyedStore) Messages(id fix.StorageID, from, to int) ([]simplefixgo.SendingMessage, error) {
	return k.part(id).Messages(id, from, to)
}
