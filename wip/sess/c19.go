package main

// C19 — messages are stored before sending; handlers run in order; a refusal stops it.
// Exhaustive over: role × message-store failure on the k-th save (k = never,1,2,3) × number of
// all-types (a <= A) and type-specific (t <= T) outgoing handlers × every interleaving of their
// registration × every accept/refuse vector × message type {0, V} × 3 sends; and, inbound, every
// interleaving of all-types / type-specific incoming handler registration.

import (
	"bytes"
	"errors"
	"fmt"
	"strings"

	simplefixgo "github.com/b2broker/simplefix-go"
	"github.com/b2broker/simplefix-go/fix"
	"github.com/b2broker/simplefix-go/session/messages"
	"github.com/b2broker/simplefix-go/storages/memory"
	fixgen "github.com/b2broker/simplefix-go/tests/fix44"
	"vlib"
	"vsched"
)

type c19Case struct {
	Role    string `json:"role"`
	FailAt  int    `json:"fail_at"`  // 0 = never; k = the k-th Save after logon fails
	Order   string `json:"order"`    // registration order, e.g. "AtA": A = all-types handler, t = type-specific
	Refuse  int    `json:"refuse"`   // bit i set = handler i (in registration order) refuses
	MsgType string `json:"msg_type"` // "0" or "V"
	Inbound bool   `json:"inbound"`
	Mutate  bool   `json:"mutate,omitempty"`   // every outgoing handler re-stamps SendingTime before looking at the bytes
	Late    bool   `json:"late,omitempty"`     // type-specific handlers are registered only after a first message of that type has passed
	LateAll bool   `json:"late_all,omitempty"` // ... and so are the all-types handlers
	Reset   bool   `json:"reset,omitempty"`    // the outgoing counter is reset through the counter store before the last send
	Remove  int    `json:"remove,omitempty"`   // k > 0: the application removes its k-th handler again, with the id registration gave it, before the sends
	Resend  bool   `json:"resend,omitempty"`   // after the sends the peer asks for everything again: the retransmissions pass the handlers too
	// ResendRefuse (with Resend): 1 = an application handler refuses every retransmission, 2 = the store refuses to
	// save them again; afterwards the application sends once more: "a refusal stops that message only"
	ResendRefuse int `json:"resend_refuse,omitempty"`
	// ErrHook: the application's error callback reacts through the session (it sends a message of its own): whenever
	// the library calls it, it must be able to do so
	ErrHook bool `json:"err_hook,omitempty"`
	// Final: after the sends the session itself sends a Logout ("logout" = Session.Logout, "stop" =
	// Session.Stop).  FailAt 4 makes the store refuse exactly that message; RefuseFinal registers a handler
	// for the Logout type that refuses it.  Either way it must not be transmitted.
	Final       string `json:"final,omitempty"`
	RefuseFinal bool   `json:"refuse_final,omitempty"`
	// InRefuse (inbound): bit i set = the i-th all-types incoming handler (in registration order) returns
	// false.  What that does to the remaining all-types handlers the statement leaves open; the handlers of
	// the message's own type are offered the message regardless.
	InRefuse int `json:"in_refuse,omitempty"`
	// CounterFailAt = k > 0 (inbound): the counter store refuses the k-th recording of an inbound number
	// after the logon, once; the message that was being recorded is still handled (a TestRequest answered).
	CounterFailAt int `json:"counter_fail_at,omitempty"`
	// Backlog > 0 (inbound): the handler is stopped while the dispatcher is inside a callback and this many
	// further messages are queued; every one of them is still offered to the handlers, in order.
	Backlog int `json:"backlog,omitempty"`
}

// failingStore wraps the memory store and logs every Save.
type failingStore struct {
	*memory.Storage
	log     *[]string
	saves   int
	failAt  int
	armed   bool
	saved   map[int][]byte
	failAll bool // every Save is refused while set
}

var errSave = errors.New("injected save failure")

// failingCounter wraps the memory store as CounterStorage: the failAt-th SetSeqNum for the incoming side
// after arming fails once.
type failingCounter struct {
	*memory.Storage
	n      int
	failAt int
	armed  bool
}

func (f *failingCounter) SetSeqNum(id fix.StorageID, seq int) error {
	if f.armed && id.Side == fix.Incoming {
		f.n++
		if f.failAt != 0 && f.n == f.failAt {
			return errors.New("injected counter store failure")
		}
	}
	return f.Storage.SetSeqNum(id, seq)
}

func (f *failingStore) Save(id fix.StorageID, msg simplefixgo.SendingMessage, seq int) error {
	if f.armed {
		f.saves++
		*f.log = append(*f.log, fmt.Sprintf("save#%d", seq))
		if f.failAt != 0 && f.saves == f.failAt {
			return errSave
		}
	}
	if f.failAll {
		return errSave
	}
	b, _ := msg.ToBytes()
	f.saved[seq] = append([]byte{}, b...)
	return f.Storage.Save(id, msg, seq)
}

func c19Run(c c19Case) (string, string) {
	var log []string
	st := memory.NewStorage()
	fs := &failingStore{Storage: st, log: &log, failAt: c.FailAt, saved: map[int][]byte{}}
	fc := &failingCounter{Storage: st, failAt: c.CounterFailAt}
	w := newWorld(wcfg{Role: c.Role, Buf: 20, HbMin: 5, HbMax: 30, HbInt: 30, Store: st, MS: fs, CS: fc})
	w.logonOK(30)
	if !w.s.IsLogged() {
		return "setup:not-logged", ""
	}
	mk := func() messages.Message {
		if c.MsgType == "0" {
			return fixgen.CreateHeartbeat().SetTestReqID("app")
		}
		return fixgen.NewMarketDataRequest().SetMDReqID("r")
	}
	if c.Inbound && c.CounterFailAt > 0 {
		fc.armed = true
		w.take()
		for i := 1; i <= 3; i++ {
			id := fmt.Sprintf("T%d", i)
			w.in(w.msg("1", "112="+id))
			outs := w.take()
			if countType(outs, "0") != 1 {
				return "inbound-not-handled-after-counter-store-fault", fmt.Sprintf("TestRequest %d (the store refused recording #%d): outs=[%s]", i, c.CounterFailAt, outsStr(outs))
			}
			if got, _ := get(outs[0].Msg, "112"); got != id {
				return "inbound-not-handled-after-counter-store-fault", fmt.Sprintf("TestRequest %d answered with %q", i, got)
			}
		}
		return "", ""
	}
	if c.Inbound && c.InRefuse > 0 {
		var calls []string
		ai := 0
		for i, k := range c.Order {
			name := fmt.Sprintf("%c%d", k, i)
			if k == 'A' {
				refuse := c.InRefuse&(1<<ai) != 0
				ai++
				w.h.HandleIncoming(simplefixgo.AllMsgTypes, func(data []byte) bool { calls = append(calls, name); return !refuse })
			} else {
				w.h.HandleIncoming("D", func(data []byte) bool { calls = append(calls, name); return true })
			}
		}
		w.in(w.msg("D", "11=x"))
		var gotT, wantT []string
		for _, n := range calls {
			if n[0] == 't' {
				gotT = append(gotT, n)
			}
		}
		for i, k := range c.Order {
			if k == 't' {
				wantT = append(wantT, fmt.Sprintf("t%d", i))
			}
		}
		if strings.Join(gotT, ",") != strings.Join(wantT, ",") {
			return "inbound-type-handlers-skipped", fmt.Sprintf("order %s, all-types refusals %b: called %v, type handlers expected %v", c.Order, c.InRefuse, calls, wantT)
		}
		return "", ""
	}
	if c.Inbound && c.Backlog > 0 {
		var got []string
		gate := make(chan struct{}, 1)
		w.h.HandleIncoming(simplefixgo.AllMsgTypes, func(data []byte) bool {
			id, _ := get(data, "11")
			got = append(got, "A:"+id)
			if id == "m0" {
				<-gate // the dispatcher is busy in here while the rest arrives and the handler is stopped
			}
			return true
		})
		w.h.HandleIncoming("D", func(data []byte) bool {
			id, _ := get(data, "11")
			got = append(got, "t:"+id)
			return true
		})
		var want []string
		for i := 0; i <= c.Backlog; i++ {
			id := "m" + fmt.Sprint(i)
			want = append(want, "A:"+id, "t:"+id)
			w.h.ServeIncoming(w.msg("D", "11="+id))
		}
		vsched.Settle()
		w.h.Stop()
		vsched.Settle()
		gate <- struct{}{}
		vsched.Settle()
		if strings.Join(got, ",") != strings.Join(want, ",") {
			return "inbound-backlog-not-offered-to-handlers", fmt.Sprintf("backlog %d: offered %v want %v", c.Backlog, got, want)
		}
		return "", ""
	}
	if c.Inbound {
		// incoming: all-types handlers, then the handlers of the message's own type, each in registration order
		for i, k := range c.Order {
			name := fmt.Sprintf("%c%d", k, i)
			typ := simplefixgo.AllMsgTypes
			if k == 't' {
				typ = "D"
			}
			w.h.HandleIncoming(typ, func(data []byte) bool { log = append(log, name); return true })
		}
		w.h.HandleIncoming("Q", func(data []byte) bool { log = append(log, "other-type"); return true })
		w.take()
		w.in(w.msg("D", "11=x"))
		if c.Late {
			// a second round of handlers registered after a D message has already passed
			n0 := len(c.Order)
			for i, k := range c.Order {
				name := fmt.Sprintf("%c%d", k, n0+i)
				typ := simplefixgo.AllMsgTypes
				if k == 't' {
					typ = "D"
				}
				w.h.HandleIncoming(typ, func(data []byte) bool { log = append(log, name); return true })
			}
			log = log[:0]
			w.in(w.msg("D", "11=y"))
			c.Order = c.Order + c.Order
		}
		var exp []string
		for i, k := range c.Order {
			if k == 'A' {
				exp = append(exp, fmt.Sprintf("A%d", i))
			}
		}
		for i, k := range c.Order {
			if k == 't' {
				exp = append(exp, fmt.Sprintf("t%d", i))
			}
		}
		if strings.Join(log, ",") != strings.Join(exp, ",") {
			return "inbound-handler-order", fmt.Sprintf("order %s: called %v want %v", c.Order, log, exp)
		}
		return "", ""
	}
	var seen [][]byte // bytes each handler saw for the current send
	var seenSeq []int // ... and the sequence number of the message it was looking at
	ids := map[int]int64{}
	register := func(i int, k rune) {
		name := fmt.Sprintf("%c%d", k, i)
		typ := simplefixgo.AllMsgTypes
		if k == 't' {
			typ = c.MsgType
		}
		ids[i] = w.h.HandleOutgoing(typ, func(msg simplefixgo.SendingMessage) bool {
			log = append(log, name)
			if c.Mutate {
				msg.HeaderBuilder().SetFieldSendingTime(fmt.Sprintf("20240101-00:00:%02d.000", 10+i))
			}
			b, _ := msg.ToBytes()
			seen = append(seen, append([]byte{}, b...))
			seenSeq = append(seenSeq, msg.HeaderBuilder().MsgSeqNum())
			vsched.Preempt()
			return c.Refuse&(1<<i) == 0
		})
	}
	for i, k := range c.Order {
		if c.Late && (k == 't' || c.LateAll) {
			continue
		}
		register(i, k)
	}
	if c.Late {
		// a first message of the type passes while no type-specific handler exists; they are registered afterwards
		if err := w.s.Send(mk()); err != nil && c.Refuse == 0 {
			return "send-error", err.Error()
		}
		vsched.Settle()
		for i, k := range c.Order {
			if k == 't' || c.LateAll {
				register(i, k)
			}
		}
	}
	if c.ErrHook {
		nested := 0
		w.s.OnError(func(e error) {
			if nested == 0 {
				nested++
				_ = w.s.Send(fixgen.NewMarketDataRequest().SetMDReqID("from-the-error-callback"))
			}
		})
	}
	refusing := false
	if c.ResendRefuse == 1 {
		w.h.HandleOutgoing(simplefixgo.AllMsgTypes, func(msg simplefixgo.SendingMessage) bool { return !refusing })
	}
	// a handler for another type must never run
	other := "V"
	if c.MsgType == "V" {
		other = "0"
	}
	w.h.HandleOutgoing(other, func(msg simplefixgo.SendingMessage) bool { log = append(log, "other-type"); return true })
	if lc := strings.ToLower(c.MsgType); lc != c.MsgType {
		// message types are case-sensitive ('V' MarketDataRequest, 'v' SecurityTypeRequest)
		w.h.HandleOutgoing(lc, func(msg simplefixgo.SendingMessage) bool { log = append(log, "other-case-type"); return true })
		w.h.HandleOutgoing(" "+c.MsgType, func(msg simplefixgo.SendingMessage) bool { log = append(log, "padded-type"); return true })
	}
	w.take()
	removed := ""
	if c.Remove > 0 && c.Remove <= len(c.Order) {
		// the application takes one of its own handlers out again, with the id it was given for it; whether
		// the library then still calls that handler is not C19's business - everything else must stay in place
		i := c.Remove - 1
		typ := simplefixgo.AllMsgTypes
		if c.Order[i] == 't' {
			typ = c.MsgType
		}
		_ = w.h.RemoveOutgoingHandler(typ, ids[i])
		removed = fmt.Sprintf("%c%d", c.Order[i], i)
	}
	fs.armed = true
	firstRefuser := -1
	log = log[:0]
	var expOrder []string
	for i, k := range c.Order {
		if k == 'A' {
			expOrder = append(expOrder, fmt.Sprintf("A%d", i))
		}
	}
	for i, k := range c.Order {
		if k == 't' {
			expOrder = append(expOrder, fmt.Sprintf("t%d", i))
		}
	}
	for pos, nm := range expOrder {
		var idx int
		fmt.Sscanf(nm[1:], "%d", &idx)
		if c.Refuse&(1<<idx) != 0 {
			firstRefuser = pos
			break
		}
	}
	for send := 1; send <= 3; send++ {
		log = log[:0]
		seen = seen[:0]
		if c.Reset && send == 3 {
			// the application resets the outgoing counter (CounterStorage.ResetSeqNum): numbers start again
			// at 1 and every message must still be stored under the number it is transmitted with
			_ = st.ResetSeqNum(fix.StorageID{Side: fix.Outgoing})
		}
		err := w.s.Send(mk())
		vsched.Settle()
		outs := w.take()
		saveFails := c.FailAt == send
		// expected call log
		exp := []string{""}
		exp = exp[:0]
		if len(log) == 0 || !strings.HasPrefix(log[0], "save#") {
			return "not-saved-first", fmt.Sprintf("send %d: call log %v", send, log)
		}
		seq := 0
		fmt.Sscanf(log[0], "save#%d", &seq)
		exp = append(exp, log[0])
		if !saveFails {
			for pos, nm := range expOrder {
				exp = append(exp, nm)
				if pos == firstRefuser {
					break
				}
			}
		}
		if removed != "" {
			// judged modulo the removed handler
			drop := func(l []string) []string {
				var o []string
				for _, x := range l {
					if x != removed {
						o = append(o, x)
					}
				}
				return o
			}
			log, exp = drop(log), drop(exp)
		}
		if strings.Join(log, ",") != strings.Join(exp, ",") {
			return "handler-order", fmt.Sprintf("send %d order %s refuse %b failAt %d removed %q: called %v want %v", send, c.Order, c.Refuse, c.FailAt, removed, log, exp)
		}
		blocked := saveFails || firstRefuser >= 0
		if blocked {
			if err == nil {
				return "refusal-not-reported", fmt.Sprintf("send %d: Send returned nil although %v", send, log)
			}
			if len(outs) != 0 {
				return "transmitted-despite-refusal", fmt.Sprintf("send %d: %s", send, outsStr(outs))
			}
			continue
		}
		if err != nil {
			return "send-error", fmt.Sprintf("send %d: %v", send, err)
		}
		if len(outs) != 1 {
			return "not-transmitted-once", fmt.Sprintf("send %d: outs=[%s]", send, outsStr(outs))
		}
		if seqOf(outs[0].Msg) != seq {
			return "saved-under-other-number", fmt.Sprintf("send %d: saved as %d, transmitted %s", send, seq, show(outs[0].Msg))
		}
		if !c.Mutate && !bytes.Equal(fs.saved[seq], outs[0].Msg) {
			return "stored-bytes-differ", fmt.Sprintf("send %d: stored %s transmitted %s", send, show(fs.saved[seq]), show(outs[0].Msg))
		}
		// what the store holds under that number now is what went out
		if ms, err := st.Messages(fix.StorageID{Side: fix.Outgoing}, seq, seq); err != nil || len(ms) != 1 {
			return "not-in-store", fmt.Sprintf("send %d: Messages(%d,%d) = %d messages, %v", send, seq, seq, len(ms), err)
		} else if b, _ := ms[0].ToBytes(); !bytes.Equal(b, outs[0].Msg) {
			return "stored-message-differs-from-transmitted", fmt.Sprintf("send %d: store %s transmitted %s", send, show(b), show(outs[0].Msg))
		}
		for hi, b := range seen {
			if c.Mutate && hi != len(seen)-1 {
				continue // a later handler re-stamped the message: only the last view must equal the wire
			}
			if !bytes.Equal(b, outs[0].Msg) {
				return "handler-saw-other-bytes", fmt.Sprintf("send %d handler %d saw %s transmitted %s", send, hi, show(b), show(outs[0].Msg))
			}
		}
	}
	if c.Final != "" {
		if c.RefuseFinal {
			w.h.HandleOutgoing("5", func(msg simplefixgo.SendingMessage) bool { return false })
		}
		log = log[:0]
		w.take()
		if c.Final == "stop" {
			_ = w.s.Stop()
		} else {
			_ = w.s.Logout()
		}
		vsched.Settle()
		outs := w.take()
		blocked := c.FailAt == 4 || c.RefuseFinal
		n5 := countType(outs, "5")
		if blocked && n5 != 0 {
			why := "refused by an outgoing handler"
			if c.FailAt == 4 {
				why = "not saved (the store failed)"
			}
			return "final-logout-transmitted-despite-refusal", fmt.Sprintf("%s: the Logout was %s, yet it was transmitted: %s (call log %v)", c.Final, why, outsStr(outs), log)
		}
		if !blocked {
			if n5 != 1 {
				return "final-logout-not-transmitted-once", fmt.Sprintf("%s: outs=[%s]", c.Final, outsStr(outs))
			}
			if len(log) == 0 || !strings.HasPrefix(log[0], "save#") {
				return "not-saved-first", fmt.Sprintf("%s: call log %v", c.Final, log)
			}
		}
		return "", ""
	}
	if c.Resend {
		// the peer asks for everything again: each retransmission passes the outgoing handlers like a
		// first transmission, and what the last handler saw is what goes out
		seen, seenSeq, log = seen[:0], seenSeq[:0], log[:0]
		if c.ResendRefuse != 0 {
			refusing = true
			if c.ResendRefuse == 2 {
				fs.failAll = true
			}
			w.in(w.msg("2", "7=1", "16=0"))
			refusing, fs.failAll = false, false
			if outs := w.take(); len(outs) != 0 {
				return "resend:refused-message-transmitted", outsStr(outs)
			}
			// the refusals concerned those messages only: the next one goes out as usual
			err := w.s.Send(mk())
			vsched.Settle()
			outs := w.take()
			if err != nil {
				return "send-after-refused-retransmission:error", err.Error()
			}
			if len(outs) != 1 || mtype(outs[0].Msg) != c.MsgType {
				return "send-after-refused-retransmission:not-transmitted", outsStr(outs)
			}
			return "", ""
		}
		w.in(w.msg("2", "7=1", "16=0"))
		outs := w.take()
		if len(outs) == 0 {
			return "resend:nothing-retransmitted", ""
		}
		for _, o := range outs {
			q := seqOf(o.Msg)
			last := -1
			for i, sq := range seenSeq {
				if sq == q {
					last = i
				}
			}
			if last < 0 {
				if strings.Contains(c.Order, "A") {
					return "resend:handlers-not-run", fmt.Sprintf("retransmission of %d passed no all-types handler: %s", q, show(o.Msg))
				}
				continue
			}
			if !bytes.Equal(seen[last], o.Msg) {
				return "resend:handler-saw-other-bytes", fmt.Sprintf("retransmission of %d: last handler saw %s transmitted %s", q, show(seen[last]), show(o.Msg))
			}
		}
	}
	return "", ""
}

func c19BacklogScenario(name string, p map[string]any) *schedScenario {
	role, n := pstr(p, "role"), pint(p, "n")
	var sig, detail string
	sc := &schedScenario{Name: "c19b", Params: p, Strict: true, Delay: true}
	sc.Body = func() { sig, detail = c19Run(c19Case{Role: role, Inbound: true, Backlog: n}) }
	sc.Check = func(r *vsched.Result) (string, string) { return sig, detail }
	sc.Outcome = func() string { return fmt.Sprintf("backlog %d offered=%v", n, sig == "") }
	return sc
}

func runC19(R *vlib.Out) {
	if *vlib.ReplayPath != "" {
		var probe struct {
			Scenario string `json:"scenario"`
		}
		vlib.LoadReplay(&probe)
		if probe.Scenario == "c19b" {
			replaySched(R, c19BacklogScenario)
			return
		}
		var c c19Case
		vlib.LoadReplay(&c)
		R.Eval()
		if sig, d, _ := execBody(func() (string, string) { return c19Run(c) }); sig != "" {
			R.Violate(sig, d, c)
		}
		return
	}
	maxA, maxT := 2, 2
	if *vlib.Tier == "thorough" {
		maxA, maxT = 4, 4
	}
	R.Bounds["max_all_types_handlers"] = maxA
	R.Bounds["max_type_specific_handlers"] = maxT
	var orders []string
	var gen func(cur string, a, t int)
	gen = func(cur string, a, t int) {
		orders = append(orders, cur)
		if a < maxA {
			gen(cur+"A", a+1, t)
		}
		if t < maxT {
			gen(cur+"t", a, t+1)
		}
	}
	gen("", 0, 0)
	unit := 0
	try := func(c c19Case) bool {
		unit++
		if !vlib.Mine(unit) {
			return true
		}
		if vlib.Expired() {
			R.Cap("deadline")
			return false
		}
		R.Eval()
		sig, d, steps := execBody(func() (string, string) { return c19Run(c) })
		R.Transitions += int64(steps)
		key := fmt.Sprintf("%+v", c)
		R.State(key)
		R.ClassU(key)
		R.Sample(5, c)
		if sig != "" {
			R.Violate(sig, key+": "+d, c)
		} else {
			R.Outcome(fmt.Sprintf("ok inbound=%v refuse=%v fail=%v", c.Inbound, c.Refuse != 0, c.FailAt != 0))
		}
		return true
	}
	for _, role := range []string{"acc", "ini"} {
		for _, n := range []int{1, 2, 3, 5, 8} {
			if !try(c19Case{Role: role, Inbound: true, Backlog: n}) {
				return
			}
			// ... and under every schedule within delay bound 1 (which of the dispatcher's ready select cases -
			// the queue or the stop signal - is taken first is a choice point)
			sc := c19BacklogScenario("c19b", map[string]any{"role": role, "n": n})
			sc.Bound = 1
			if *vlib.Tier == "thorough" {
				sc.Bound = 2
			}
			scenarioBudget = vlib.Remaining() / 8
			exploreSched(R, sc)
			scenarioBudget = 0
		}
		for k := 1; k <= 3; k++ {
			if !try(c19Case{Role: role, Inbound: true, CounterFailAt: k}) {
				return
			}
		}
		for _, o := range []string{"At", "tA", "AAt", "AtAt", "ttA"} {
			na := strings.Count(o, "A")
			for r := 1; r < 1<<na; r++ {
				if !try(c19Case{Role: role, Order: o, Inbound: true, InRefuse: r}) {
					return
				}
			}
		}
		for _, final := range []string{"logout", "stop"} {
			for _, o := range []string{"", "A", "At"} {
				if !try(c19Case{Role: role, Order: o, MsgType: "0", Final: final}) ||
					!try(c19Case{Role: role, Order: o, MsgType: "0", Final: final, FailAt: 4}) ||
					!try(c19Case{Role: role, Order: o, MsgType: "V", Final: final, RefuseFinal: true}) {
					return
				}
			}
		}
		for _, o := range orders {
			if !try(c19Case{Role: role, Order: o, Inbound: true}) || !try(c19Case{Role: role, Order: o, Inbound: true, Late: true}) {
				return
			}
			for _, mt := range []string{"0", "V"} {
				for failAt := 0; failAt <= 3; failAt++ {
					for refuse := 0; refuse < 1<<len(o); refuse++ {
						if failAt > 0 && refuse == 0 && !try(c19Case{Role: role, FailAt: failAt, Order: o, MsgType: mt, ErrHook: true}) {
							return
						}
						if !try(c19Case{Role: role, FailAt: failAt, Order: o, Refuse: refuse, MsgType: mt}) {
							return
						}
						if refuse == 0 {
							for k := 1; k <= len(o); k++ {
								if !try(c19Case{Role: role, FailAt: failAt, Order: o, MsgType: mt, Remove: k}) {
									return
								}
							}
						}
						if failAt == 0 && len(o) > 0 {
							if !try(c19Case{Role: role, Order: o, Refuse: refuse, MsgType: mt, Late: true, LateAll: true}) ||
								!try(c19Case{Role: role, Order: o, Refuse: refuse, MsgType: mt, Reset: true}) ||
								!try(c19Case{Role: role, Order: o, Refuse: refuse, MsgType: mt, Mutate: true}) ||
								!try(c19Case{Role: role, Order: o, Refuse: refuse, MsgType: mt, Late: true}) ||
								!try(c19Case{Role: role, Order: o, Refuse: refuse, MsgType: mt, Late: true, Mutate: true}) {
								return
							}
							if refuse == 0 {
								if !try(c19Case{Role: role, Order: o, MsgType: mt, Resend: true, ResendRefuse: 1}) || !try(c19Case{Role: role, Order: o, MsgType: mt, Resend: true, ResendRefuse: 2}) {
									return
								}
								if !try(c19Case{Role: role, Order: o, MsgType: mt, Resend: true}) || !try(c19Case{Role: role, Order: o, MsgType: mt, Resend: true, Mutate: true}) {
									return
								}
							}
						}
					}
				}
			}
		}
	}
}
