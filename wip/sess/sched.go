package main

// Schedule exploration glue (S-sched): runs vsched.Explorer over a scenario body with iterative
// deviation bounding, shards on level-1 subtrees, records coverage and turns failing executions
// into replayable violations (scenario name + parameters + choice list).

import (
	"fmt"
	"time"

	"vlib"
	"vsched"
)

type schedReplay struct {
	Scenario string         `json:"scenario"`
	Params   map[string]any `json:"params"`
	Choices  []int          `json:"choices"`
	Delay    bool           `json:"delay_bounding"`
	Strict   bool           `json:"strict_time"`
}

type schedScenario struct {
	Name   string
	Params map[string]any
	Strict bool // strict virtual time (no early-timer alternatives)
	Delay  bool // delay bounding instead of preemption bounding
	Bound  int
	// Body runs inside the controlled scheduler; it stores its observation in the scenario.
	Body func()
	// Check is called outside the scheduler after each execution; returns violation sig/detail.
	Check func(r *vsched.Result) (sig, detail string)
	// Outcome returns a short key describing the observed behaviour (vacuity evidence).
	Outcome    func() string
	WantStacks bool
	MaxSteps   int
}

// scenarioBudget (real time) limits one scenario so that an expensive one cannot starve the rest;
// 0 = only the global deadline applies.
var scenarioBudget time.Duration

func exploreSched(R *vlib.Out, sc *schedScenario) {
	vsched.DelayBounding = sc.Delay
	// replay determinism: the default execution run twice must give identical outcomes
	if *vlib.Shard == 0 || true {
		// a warm-up execution first: state that the code under test builds lazily and keeps at package level
		// (a cache of search patterns, a sync.Once) belongs to the process, not to the execution; after one
		// execution of the scenario it has reached the form every further execution finds
		vsched.Run(vsched.Options{StrictTime: sc.Strict, MaxSteps: sc.MaxSteps}, sc.Body)
		r1 := vsched.Run(vsched.Options{StrictTime: sc.Strict, MaxSteps: sc.MaxSteps}, sc.Body)
		o1 := ""
		if sc.Outcome != nil {
			o1 = sc.Outcome()
		}
		r2 := vsched.Run(vsched.Options{StrictTime: sc.Strict, MaxSteps: sc.MaxSteps}, sc.Body)
		o2 := ""
		if sc.Outcome != nil {
			o2 = sc.Outcome()
		}
		if len(r1.Points) != len(r2.Points) || r1.Steps != r2.Steps || o1 != o2 {
			vlib.Fatal("replay divergence in scenario %s: %d/%d points, %d/%d steps, outcomes %q / %q", sc.Name, len(r1.Points), len(r2.Points), r1.Steps, r2.Steps, o1, o2)
		}
	}
	e := &vsched.Explorer{
		Bound: sc.Bound, Strict: sc.Strict, Shard: *vlib.Shard, NShards: *vlib.NShards,
		Deadline: scenarioDeadline(), WantStacks: sc.WantStacks, MaxSteps: sc.MaxSteps, Body: sc.Body,
	}
	stopAll := false
	e.Check = func(choices []int, cost int, r *vsched.Result) bool {
		R.Eval()
		sig, detail := "", ""
		switch {
		case r.Panic != "":
			sig, detail = "panic-in-task:"+r.PanicTask, r.Panic
		case r.Capped:
			sig, detail = "livelock-or-step-cap", fmt.Sprintf("%d steps", r.Steps)
		case r.MainBlocked:
			sig, detail = "call-never-returned", "the scenario's main task is blocked for good in "+r.MainOp+leakedStr(r.Leaked)
		default:
			sig, detail = sc.Check(r)
		}
		if sc.Outcome != nil {
			R.Outcome(sc.Name + ": " + sc.Outcome())
		}
		R.ClassU(fmt.Sprintf("%s/%v/%s/c%d", sc.Name, sc.Params, outcomeOf(sc), cost))
		if len(choices) > 0 {
			R.Sample(5, map[string]any{"scenario": sc.Name, "params": sc.Params, "choices": trimChoices(choices), "deviation_cost": cost})
		}
		if sig != "" {
			known := R.Violate(sig, fmt.Sprintf("[%s %v] cost=%d: %s", sc.Name, sc.Params, cost, detail),
				schedReplay{sc.Name, sc.Params, append([]int{}, choices...), sc.Delay, sc.Strict})
			if !known {
				// keep exploring this scenario a little to collect other signatures, but not forever
				if R.Counters["unknown_violations"]++; R.Counters["unknown_violations"] > 200 {
					stopAll = true
					return false
				}
			}
		}
		return true
	}
	e.Run()
	key := sc.Name + fmt.Sprint(sc.Params)
	if e.Capped != "" {
		R.Cap(e.Capped + " in " + key)
	}
	if cur, ok := R.Bounds["deviation_bound_completed"]; !ok || e.BoundCompleted < cur.(int) {
		R.Bounds["deviation_bound_completed"] = e.BoundCompleted
	}
	R.Bounds["deviation_bound_target"] = sc.Bound
	if sc.Delay {
		R.Bounds["deviation_measure"] = "delay bounding (every departure from the deterministic scheduler costs 1)"
	} else {
		R.Bounds["deviation_measure"] = "preemption bounding (switches forced by blocking are free)"
	}
	R.CountN("executions:"+sc.Name, int64(e.Execs))
	if e.MaxPoints > int(R.Counters["max_choice_points"]) {
		R.Counters["max_choice_points"] = int64(e.MaxPoints)
	}
	_ = stopAll
}

func scenarioDeadline() time.Time {
	d := vlib.DeadlineTime()
	if scenarioBudget > 0 {
		if t := vlib.RealNow().Add(scenarioBudget); d.IsZero() || t.Before(d) {
			return t
		}
	}
	return d
}

func outcomeOf(sc *schedScenario) string {
	if sc.Outcome == nil {
		return ""
	}
	return sc.Outcome()
}

func trimChoices(c []int) []int {
	// drop the trailing zeros (defaults)
	n := len(c)
	for n > 0 && c[n-1] == 0 {
		n--
	}
	return append([]int{}, c[:n]...)
}

// finishSched copies the scheduler-level state hashes and step counts into the result.
func finishSched(R *vlib.Out) {
	for _, h := range vsched.StateHashes() {
		R.StateHash(h)
	}
	R.Transitions += vsched.TotalSteps
	if vsched.StateCapHit {
		R.Note("state hash set capped at 3,000,000 entries per shard: 'states' is a lower bound")
	}
}

func replaySched(R *vlib.Out, scenarios func(name string, params map[string]any) *schedScenario) {
	var rp schedReplay
	vlib.LoadReplay(&rp)
	sc := scenarios(rp.Scenario, rp.Params)
	if sc == nil {
		vlib.Fatal("replay: unknown scenario %q", rp.Scenario)
	}
	vsched.DelayBounding = rp.Delay
	// the same warm-up execution as in the exploration (package-level lazily built state), then the recorded schedule
	vsched.Run(vsched.Options{StrictTime: rp.Strict, MaxSteps: sc.MaxSteps}, sc.Body)
	R.Eval()
	r := vsched.Run(vsched.Options{Prefix: rp.Choices, StrictTime: rp.Strict, WantStacks: sc.WantStacks, MaxSteps: sc.MaxSteps}, sc.Body)
	sig, detail := "", ""
	switch {
	case r.Panic != "":
		sig, detail = "panic-in-task:"+r.PanicTask, r.Panic
	case r.Capped:
		sig, detail = "livelock-or-step-cap", fmt.Sprintf("%d steps", r.Steps)
	case r.MainBlocked:
		sig, detail = "call-never-returned", "the scenario's main task is blocked for good in "+r.MainOp+leakedStr(r.Leaked)
	default:
		sig, detail = sc.Check(&r)
	}
	if sig != "" {
		R.Violate(sig, detail, rp)
	}
}
