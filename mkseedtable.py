#!/usr/bin/env python3
"""Regenerates the seeded-changes table inside DESIGN.md from seeded/*/meta.json."""
import json, os, glob, re
V = os.path.dirname(os.path.abspath(__file__))
rows = []
for d in sorted(glob.glob(os.path.join(V, "seeded", "*"))):
    mp = os.path.join(d, "meta.json")
    if not os.path.exists(mp):
        continue
    m = json.load(open(mp))
    c = m.get("confirmed", {})
    det = c.get("detected_by", {})
    caught = ", ".join(k for k, v in det.items() if v.get("violation")) or "—"
    missed = ", ".join(k for k, v in det.items() if not v.get("violation"))
    needs = (m.get("needs_to_manifest") or "").replace("\n", " ").replace("|", "/")
    needs = re.sub(r"\s+", " ", needs)[:170]
    what = re.sub(r"\s+", " ", (m.get("breaks") or "").replace("|", "/"))[:150]
    ok = c.get("suite_with_change") == "pass" and str(c.get("demo_with_change", "")).startswith("fail") and c.get("demo_on_unchanged_tree") == "pass"
    rows.append("| %s | %s | %s | %s | %s | %s%s |" % (os.path.basename(d), m.get("property"), what, needs, "yes" if ok else "NO", caught, (" (not: %s)" % missed) if missed else ""))
tbl = "| seed | property | change | needs to manifest | confirmed | detected by (quick tier) |\n|---|---|---|---|---|---|\n" + "\n".join(rows)
p = os.path.join(V, "DESIGN.md")
s = open(p).read()
i = s.index("<!-- SEEDTABLE -->")
j = s.index("\n<!-- /SEEDTABLE -->", i)
s = s[:i] + "<!-- SEEDTABLE -->\n" + tbl + "\n" + s[j:]
open(p, "w").write(s)
print(len(rows), "seeds")
